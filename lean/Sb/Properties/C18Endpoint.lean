/-
C18 — why the end-point rule of the `touches` judge may be exact.

The judge (`Sb/Corr/PolyOps.lean`, `checkTouches`) accepts "no solution in [0,1]" within a root tolerance, except when
`p(0)` or `p(1)` equals the value asked and `dyadicSafe` holds: every coefficient and the value are multiples of 1/16 of
magnitude at most 2^16.  This file proves what that exception rests on: such numbers and all sums of up to sixteen of them are
binary32 values, so `p(1) = c₀ + c₁ + c₂ + c₃` is computed without any rounding **in every order of summation**
(`sum4_exact`, `sum4_exact_horner`), and the comparison `p(1) == value` of any implementation that evaluates the end point in
binary32 is the comparison of the exact numbers.  No conditioning argument can therefore excuse a missed end-point solution.
-/
import Sb.Proofs.RoundF32
import Sb.Corr.PolyOps

namespace Sb.C18
open Sb Sb.Proofs

/-- `x = n/16` with `|n| ≤ B` -/
def Dy (B : Nat) (x : Rat) : Prop := ∃ n : Int, x = (n : ℚ) / 16 ∧ n.natAbs ≤ B

theorem Dy.add {A B : Nat} {x y : Rat} (hx : Dy A x) (hy : Dy B y) : Dy (A + B) (x + y) := by
  obtain ⟨n, rfl, hn⟩ := hx
  obtain ⟨m, rfl, hm⟩ := hy
  refine ⟨n + m, by push_cast; ring, ?_⟩
  have := Int.natAbs_add_le n m
  omega

theorem Dy.mono {A B : Nat} {x : Rat} (hx : Dy A x) (h : A ≤ B) : Dy B x := by
  obtain ⟨n, rfl, hn⟩ := hx
  exact ⟨n, rfl, by omega⟩

theorem pow2_neg4 : pow2 (-4) = 1 / 16 := by
  rw [pow2_eq_zpow]; norm_num

/-- a multiple of 1/16 with numerator up to 2^23 is a binary32 value -/
theorem Dy.repr {x : Rat} (hx : Dy 8388608 x) : roundF32 x = x := by
  obtain ⟨n, rfl, hn⟩ := hx
  have key : ∀ m : Int, 0 < m → m.natAbs ≤ 8388608 → Proofs.Repr ((m : ℚ) / 16) := by
    intro m hm hb
    have he : (m : ℚ) / 16 = (m : ℚ) * pow2 (-4) := by rw [pow2_neg4]; ring
    rw [he]
    apply repr_of_multiple m (-4) hm
    have hpos : (0 : ℚ) < (m : ℚ) * pow2 (-4) := mul_pos (by exact_mod_cast hm) (pow2_pos _)
    have hlt : (m : ℚ) * pow2 (-4) < pow2 (19 + 1) := by
      rw [pow2_neg4]
      have h21 : pow2 (19 + 1) = 1048576 := by rw [pow2_eq_zpow]; norm_num
      rw [h21]
      have : (m : ℚ) ≤ 8388608 := by
        have : m ≤ 8388608 := by omega
        exact_mod_cast this
      linarith
    have hfl : floorLog2 ((m : ℚ) * pow2 (-4)) ≤ 19 := by
      by_contra hc
      have h21 : (20 : Int) ≤ floorLog2 ((m : ℚ) * pow2 (-4)) := by omega
      have := (floorLog2_spec _ hpos).1
      have h2 := pow2_mono h21
      have : pow2 20 ≤ (m : ℚ) * pow2 (-4) := le_trans h2 this
      have h21' : pow2 (19 + 1) = pow2 20 := by norm_num
      rw [h21'] at hlt
      linarith
    have := qexp_le (floorLog2 ((m : ℚ) * pow2 (-4)))
    omega
  rcases lt_trichotomy n 0 with h | h | h
  · have hr := key (-n) (by omega) (by rw [Int.natAbs_neg]; exact hn)
    have hneg := repr_neg hr
    have e : -(((-n : Int) : ℚ) / 16) = (n : ℚ) / 16 := by push_cast; ring
    rw [e] at hneg
    exact hneg
  · subst h; simpa using roundF32_zero
  · exact key n h hn

/-- an entry accepted by the judge's `dyadicSafe` is such a number, with numerator up to 2^20 -/
theorem dyadicSafe_mem {xs : List Rat} (h : Corr.dyadicSafe xs = true) {x : Rat} (hx : x ∈ xs) : Dy 1048576 x := by
  unfold Corr.dyadicSafe at h
  have hx' := List.all_eq_true.mp h x hx
  simp only [decide_eq_true_eq, Bool.decide_and, Bool.and_eq_true] at hx'
  obtain ⟨hden, habs⟩ := hx'
  refine ⟨(x * 16).num, ?_, ?_⟩
  · have h1 : ((x * 16).num : ℚ) = x * 16 := by
      have := Rat.num_div_den (x * 16)
      rw [hden] at this
      simpa using this
    rw [h1]; ring
  · have h1 : ((x * 16).num : ℚ) = x * 16 := by
      have := Rat.num_div_den (x * 16)
      rw [hden] at this
      simpa using this
    have habs' : |x| ≤ 65536 := by
      unfold absR at habs
      split at habs
      · rename_i hneg; rw [abs_of_neg hneg]; exact habs
      · rename_i hnn; rw [abs_of_nonneg (not_lt.mp hnn)]; exact habs
    have h2 : |((x * 16).num : ℚ)| ≤ 1048576 := by
      rw [h1, abs_mul]
      have : |(16 : ℚ)| = 16 := abs_of_pos (by norm_num)
      rw [this]; linarith
    have h3 : |(x * 16).num| ≤ 1048576 := by
      have : ((|(x * 16).num| : Int) : ℚ) ≤ 1048576 := by rw [Int.cast_abs]; exact h2
      exact_mod_cast this
    rw [Int.abs_eq_natAbs] at h3
    exact_mod_cast h3

/-- **the end point is evaluated without rounding, whatever the order**: left to right … -/
theorem sum4_exact {a b c d : Rat} (ha : Dy 1048576 a) (hb : Dy 1048576 b) (hc : Dy 1048576 c) (hd : Dy 1048576 d) :
    roundF32 (roundF32 (roundF32 (a + b) + c) + d) = a + b + c + d := by
  rw [(ha.add hb).mono (by norm_num) |>.repr, ((ha.add hb).add hc).mono (by norm_num) |>.repr,
    (((ha.add hb).add hc).add hd).mono (by norm_num) |>.repr]

/-- … right to left (Horner at `t = 1`) … -/
theorem sum4_exact_horner {a b c d : Rat} (ha : Dy 1048576 a) (hb : Dy 1048576 b) (hc : Dy 1048576 c) (hd : Dy 1048576 d) :
    roundF32 (a + roundF32 (b + roundF32 (c + d))) = a + b + c + d := by
  rw [(hc.add hd).mono (by norm_num) |>.repr, (hb.add (hc.add hd)).mono (by norm_num) |>.repr,
    (ha.add (hb.add (hc.add hd))).mono (by norm_num) |>.repr]
  ring

/-- … or pairwise -/
theorem sum4_exact_pairwise {a b c d : Rat} (ha : Dy 1048576 a) (hb : Dy 1048576 b) (hc : Dy 1048576 c) (hd : Dy 1048576 d) :
    roundF32 (roundF32 (a + b) + roundF32 (c + d)) = a + b + c + d := by
  rw [(ha.add hb).mono (by norm_num) |>.repr, (hc.add hd).mono (by norm_num) |>.repr,
    ((ha.add hb).add (hc.add hd)).mono (by norm_num) |>.repr]
  ring

/-- the rule applied to one of the quadratics of seeded change C18-21 (DESIGN.md 9.6): 210.125 t² − 589.875 t − 39.75 takes
the value −419.5 exactly at t = 1 -/
example : Corr.dyadicSafe [-839/2, -159/4, -4719/8, 1681/8] = true ∧ (-159/4 : ℚ) + -4719/8 + 1681/8 = -839/2 := by
  constructor
  · decide +kernel
  · norm_num

end Sb.C18
