/-
C05 — the two-bit clause at full strength: the gap bound is the period of the generator, and it is sharp.

`detect_two_bits_up_to_period`: two flipped bits after the checksum field of an accepted file whose distance in the bit
stream is below 2^32 - 1 (in particular: fewer than 2^29 - 2 bytes between them) are reported as corrupted on both routes.
`two_bits_one_period_apart_undetected`: at a distance of exactly 2^32 - 1 bit positions the altered file is *not* reported
as corrupted - the statement of the property cannot hold beyond the period for any CRC-32, so the bound is not an
artefact of the proof.  (Such files are longer than 512 MiB.)
-/
import Sb.Properties.C05
import Sb.Proofs.CrcSharp

namespace Sb.C05
open Sb Sb.Spec Sb.Proofs Sb.Container

/-- the checksum (field zeroed) of a file with two flipped bits after the field is the checksum of the original xor
the checksum of the two-bit pattern -/
theorem fileCrc_two_bits (feat c0 c1 c2 c3 : UInt8) (pre mid post : Bytes) (x1 x2 : UInt8) (a1 a2 : Fin 8) :
    Spec.fileCrc ([0x73, 0x6b, 0x79, 0x62, 2, feat, c0, c1, c2, c3] ++
        (pre ++ [x1 ^^^ UInt8.ofNat (2 ^ a1.val)] ++ mid ++ [x2 ^^^ UInt8.ofNat (2 ^ a2.val)] ++ post))
      = Spec.fileCrc ([0x73, 0x6b, 0x79, 0x62, 2, feat, c0, c1, c2, c3] ++ (pre ++ [x1] ++ mid ++ [x2] ++ post))
        ^^^ crc 0 (zeros (10 + pre.length) ++ [UInt8.ofNat (2 ^ a1.val)] ++ zeros mid.length
              ++ [UInt8.ofNat (2 ^ a2.val)] ++ zeros post.length) := by
  have h1 : Spec.fileCrc ([0x73, 0x6b, 0x79, 0x62, 2, feat, c0, c1, c2, c3] ++ (pre ++ [x1] ++ mid ++ [x2] ++ post))
      = Spec.crc 0 (([0x73, 0x6b, 0x79, 0x62, 2, feat, 0, 0, 0, 0] ++ pre) ++ [x1] ++ mid ++ [x2] ++ post) := by
    unfold Spec.fileCrc zeroCrcField
    simp
  have h2 : Spec.fileCrc ([0x73, 0x6b, 0x79, 0x62, 2, feat, c0, c1, c2, c3] ++
        (pre ++ [x1 ^^^ UInt8.ofNat (2 ^ a1.val)] ++ mid ++ [x2 ^^^ UInt8.ofNat (2 ^ a2.val)] ++ post))
      = Spec.crc 0 (([0x73, 0x6b, 0x79, 0x62, 2, feat, 0, 0, 0, 0] ++ pre) ++ [x1 ^^^ UInt8.ofNat (2 ^ a1.val)] ++ mid
          ++ [x2 ^^^ UInt8.ofNat (2 ^ a2.val)] ++ post) := by
    unfold Spec.fileCrc zeroCrcField
    simp
  rw [h1, h2]
  have hlen : 10 + pre.length = ([0x73, 0x6b, 0x79, 0x62, 2, feat, 0, 0, 0, 0] ++ pre : Bytes).length := by
    simp; omega
  rw [hlen]
  generalize ([0x73, 0x6b, 0x79, 0x62, 2, feat, 0, 0, 0, 0] ++ pre : Bytes) = A
  have hx : A ++ [x1 ^^^ UInt8.ofNat (2 ^ a1.val)] ++ mid ++ [x2 ^^^ UInt8.ofNat (2 ^ a2.val)] ++ post
      = xorBytes (A ++ [x1] ++ mid ++ [x2] ++ post)
          (zeros A.length ++ [UInt8.ofNat (2 ^ a1.val)] ++ zeros mid.length ++ [UInt8.ofNat (2 ^ a2.val)] ++ zeros post.length) := by
    rw [xorBytes_append _ _ _ _ (by simp [zeros]), xorBytes_append _ _ _ _ (by simp [zeros]),
      xorBytes_append _ _ _ _ (by simp [zeros]), xorBytes_append _ _ _ _ (by simp [zeros]),
      xorBytes_zeros, xorBytes_zeros, xorBytes_zeros]
    rfl
  rw [hx, crc_of_corrupted _ _ (by simp [zeros])]

/-- **Two flipped bits in different bytes after the checksum field of an accepted file are reported as corrupted
whenever they are less than one period (2^32 - 1 bit positions) apart**, on both loading routes, whatever lies before,
between and after them. -/
theorem detect_two_bits_up_to_period (mem : Bool) (feat c0 c1 c2 c3 : UInt8) (pre mid post : Bytes) (x1 x2 : UInt8)
    (a1 a2 : Fin 8) (hf : feat.toNat &&& Gen.SB_BINARY_FEATURE_CRC32 ≠ 0)
    (hd : bitDistance mid.length a1 a2 < ordN)
    (hacc : init mem ([0x73, 0x6b, 0x79, 0x62, 2, feat, c0, c1, c2, c3] ++ (pre ++ [x1] ++ mid ++ [x2] ++ post))
      ≠ .error .ecorrupted) :
    init mem ([0x73, 0x6b, 0x79, 0x62, 2, feat, c0, c1, c2, c3] ++
      (pre ++ [x1 ^^^ UInt8.ofNat (2 ^ a1.val)] ++ mid ++ [x2 ^^^ UInt8.ofNat (2 ^ a2.val)] ++ post)) = .error .ecorrupted := by
  rw [accept_rule mem feat c0 c1 c2 c3 _ hf]
  rw [Ne, accept_rule mem feat c0 c1 c2 c3 _ hf, Ne, Classical.not_not] at hacc
  rw [hacc, fileCrc_two_bits]
  intro h
  have key : ∀ (x e : BitVec 32), x = x ^^^ e → e = 0 := by
    intro x e hxe
    have h3 := congrArg (x ^^^ ·) hxe
    simp only [← BitVec.xor_assoc, BitVec.xor_self, BitVec.zero_xor] at h3
    exact h3.symm
  exact crc_two_bits_ne_period _ _ _ a1 a2 hd (key _ _ h)

/-- the same with the bound in bytes: fewer than 2^29 - 2 = 536 870 910 bytes between the two altered bytes -/
theorem detect_two_bits_gap (mem : Bool) (feat c0 c1 c2 c3 : UInt8) (pre mid post : Bytes) (x1 x2 : UInt8)
    (a1 a2 : Fin 8) (hf : feat.toNat &&& Gen.SB_BINARY_FEATURE_CRC32 ≠ 0) (hmid : mid.length < 536870910)
    (hacc : init mem ([0x73, 0x6b, 0x79, 0x62, 2, feat, c0, c1, c2, c3] ++ (pre ++ [x1] ++ mid ++ [x2] ++ post))
      ≠ .error .ecorrupted) :
    init mem ([0x73, 0x6b, 0x79, 0x62, 2, feat, c0, c1, c2, c3] ++
      (pre ++ [x1 ^^^ UInt8.ofNat (2 ^ a1.val)] ++ mid ++ [x2 ^^^ UInt8.ofNat (2 ^ a2.val)] ++ post)) = .error .ecorrupted :=
  detect_two_bits_up_to_period mem feat c0 c1 c2 c3 pre mid post x1 x2 a1 a2 hf (bitDistance_lt _ a1 a2 hmid) hacc

/-- **Sharpness: two flipped bits exactly one period apart are not detected.**  An accepted file stays accepted by the
checksum test (it is never reported as corrupted data) when two bits 2^32 - 1 positions apart are flipped - on both
routes, at every position.  No implementation of the stated CRC-32 can do better, so "every file length" in the property
is to be read up to this distance; the unchanged library and the model agree here by `accept_rule`. -/
theorem two_bits_one_period_apart_undetected (mem : Bool) (feat c0 c1 c2 c3 : UInt8) (pre mid post : Bytes) (x1 x2 : UInt8)
    (a1 a2 : Fin 8) (hf : feat.toNat &&& Gen.SB_BINARY_FEATURE_CRC32 ≠ 0)
    (hd : bitDistance mid.length a1 a2 = ordN)
    (hacc : init mem ([0x73, 0x6b, 0x79, 0x62, 2, feat, c0, c1, c2, c3] ++ (pre ++ [x1] ++ mid ++ [x2] ++ post))
      ≠ .error .ecorrupted) :
    init mem ([0x73, 0x6b, 0x79, 0x62, 2, feat, c0, c1, c2, c3] ++
      (pre ++ [x1 ^^^ UInt8.ofNat (2 ^ a1.val)] ++ mid ++ [x2 ^^^ UInt8.ofNat (2 ^ a2.val)] ++ post)) ≠ .error .ecorrupted := by
  rw [Ne, accept_rule mem feat c0 c1 c2 c3 _ hf, Ne, Classical.not_not] at hacc ⊢
  rw [fileCrc_two_bits, crc_two_bits_at_period _ _ _ a1 a2 hd, hacc]
  simp

/-- the hypotheses of the sharpness theorem are met by a gap of 2^29 - 2 bytes with bit 0 and bit 7 -/
example : bitDistance 536870910 ⟨0, by omega⟩ ⟨7, by omega⟩ = ordN := bitDistance_period_example

/-- the hypotheses of the detection theorem are met by adjacent bytes (any bit pair) -/
example (a1 a2 : Fin 8) : bitDistance 0 a1 a2 < ordN := bitDistance_lt 0 a1 a2 (by omega)

/-! ### one bit of the stored word together with one bit of the data, up to the period -/

/-- the checksum (field zeroed) of a file with one flipped data bit after the field - whatever the field holds - is the
checksum of the original xor the checksum of the one-bit pattern -/
theorem fileCrc_one_bit (feat c0 c1 c2 c3 d0 d1 d2 d3 : UInt8) (pre post : Bytes) (x : UInt8) (a : Fin 8) :
    Spec.fileCrc ([0x73, 0x6b, 0x79, 0x62, 2, feat, d0, d1, d2, d3] ++ (pre ++ [x ^^^ UInt8.ofNat (2 ^ a.val)] ++ post))
      = Spec.fileCrc ([0x73, 0x6b, 0x79, 0x62, 2, feat, c0, c1, c2, c3] ++ (pre ++ [x] ++ post))
        ^^^ crc 0 (zeros (10 + pre.length) ++ [UInt8.ofNat (2 ^ a.val)] ++ zeros post.length) := by
  have h1 : Spec.fileCrc ([0x73, 0x6b, 0x79, 0x62, 2, feat, c0, c1, c2, c3] ++ (pre ++ [x] ++ post))
      = Spec.crc 0 (([0x73, 0x6b, 0x79, 0x62, 2, feat, 0, 0, 0, 0] ++ pre) ++ [x] ++ post) := by
    unfold Spec.fileCrc zeroCrcField
    simp
  have h2 : Spec.fileCrc ([0x73, 0x6b, 0x79, 0x62, 2, feat, d0, d1, d2, d3] ++ (pre ++ [x ^^^ UInt8.ofNat (2 ^ a.val)] ++ post))
      = Spec.crc 0 (([0x73, 0x6b, 0x79, 0x62, 2, feat, 0, 0, 0, 0] ++ pre) ++ [x ^^^ UInt8.ofNat (2 ^ a.val)] ++ post) := by
    unfold Spec.fileCrc zeroCrcField
    simp
  rw [h1, h2]
  have hlen : 10 + pre.length = ([0x73, 0x6b, 0x79, 0x62, 2, feat, 0, 0, 0, 0] ++ pre : Bytes).length := by
    simp; omega
  rw [hlen]
  generalize ([0x73, 0x6b, 0x79, 0x62, 2, feat, 0, 0, 0, 0] ++ pre : Bytes) = A
  have hx : A ++ [x ^^^ UInt8.ofNat (2 ^ a.val)] ++ post
      = xorBytes (A ++ [x] ++ post) (zeros A.length ++ [UInt8.ofNat (2 ^ a.val)] ++ zeros post.length) := by
    rw [xorBytes_append _ _ _ _ (by simp [zeros]), xorBytes_append _ _ _ _ (by simp [zeros]), xorBytes_zeros, xorBytes_zeros]
    rfl
  rw [hx, crc_of_corrupted _ _ (by simp [zeros])]

/-- **One flipped bit of the stored checksum word together with one flipped data bit less than one period before the end
of the file** (in particular: fewer than 2^29 - 5 bytes after it) is reported as corrupted, on both routes. -/
theorem detect_field_bit_and_data_bit_up_to_period (mem : Bool) (feat c0 c1 c2 c3 d0 d1 d2 d3 : UInt8) (pre post : Bytes)
    (x : UInt8) (a : Fin 8) (k : Fin 32) (hf : feat.toNat &&& Gen.SB_BINARY_FEATURE_CRC32 ≠ 0)
    (hd : fieldDistance post.length a k < ordN)
    (hflip : le32 [d0, d1, d2, d3] = le32 [c0, c1, c2, c3] ^^^ basis k.val)
    (hacc : init mem ([0x73, 0x6b, 0x79, 0x62, 2, feat, c0, c1, c2, c3] ++ (pre ++ [x] ++ post)) ≠ .error .ecorrupted) :
    init mem ([0x73, 0x6b, 0x79, 0x62, 2, feat, d0, d1, d2, d3] ++ (pre ++ [x ^^^ UInt8.ofNat (2 ^ a.val)] ++ post))
      = .error .ecorrupted := by
  rw [accept_rule mem feat d0 d1 d2 d3 _ hf]
  rw [Ne, accept_rule mem feat c0 c1 c2 c3 _ hf, Ne, Classical.not_not] at hacc
  rw [hflip, hacc, fileCrc_one_bit feat c0 c1 c2 c3 d0 d1 d2 d3]
  intro h
  have key : ∀ (u v w : BitVec 32), u ^^^ v = u ^^^ w → v = w := by
    intro u v w huv
    have h3 := congrArg (u ^^^ ·) huv
    simp only [← BitVec.xor_assoc, BitVec.xor_self, BitVec.zero_xor] at h3
    exact h3
  exact crc_one_bit_ne_basis_period _ _ a k hd (key _ _ _ h).symm

/-- **Sharpness of the mixed case**: a flipped data bit exactly one period before the register position of a flipped bit
of the stored word compensates it - the file is not reported as corrupted. -/
theorem field_bit_and_data_bit_one_period_apart_undetected (mem : Bool) (feat c0 c1 c2 c3 d0 d1 d2 d3 : UInt8)
    (pre post : Bytes) (x : UInt8) (a : Fin 8) (k : Fin 32) (hf : feat.toNat &&& Gen.SB_BINARY_FEATURE_CRC32 ≠ 0)
    (hd : fieldDistance post.length a k = ordN)
    (hflip : le32 [d0, d1, d2, d3] = le32 [c0, c1, c2, c3] ^^^ basis k.val)
    (hacc : init mem ([0x73, 0x6b, 0x79, 0x62, 2, feat, c0, c1, c2, c3] ++ (pre ++ [x] ++ post)) ≠ .error .ecorrupted) :
    init mem ([0x73, 0x6b, 0x79, 0x62, 2, feat, d0, d1, d2, d3] ++ (pre ++ [x ^^^ UInt8.ofNat (2 ^ a.val)] ++ post))
      ≠ .error .ecorrupted := by
  rw [Ne, accept_rule mem feat d0 d1 d2 d3 _ hf, Ne, Classical.not_not]
  rw [Ne, accept_rule mem feat c0 c1 c2 c3 _ hf, Ne, Classical.not_not] at hacc
  rw [hflip, hacc, fileCrc_one_bit feat c0 c1 c2 c3 d0 d1 d2 d3, crc_one_bit_eq_basis_at_period _ _ a k hd]

example : fieldDistance 536870910 ⟨0, by omega⟩ ⟨7, by omega⟩ = ordN := fieldDistance_period_example
example (a : Fin 8) (k : Fin 32) : fieldDistance 0 a k < ordN := fieldDistance_lt 0 a k (by omega)

end Sb.C05
