/-
C05 — the two-bit clause at full strength: the gap bound is the period of the generator, and it is sharp.

`detect_two_bits_up_to_period`: two flipped bits after the checksum field of an accepted file whose distance in the bit
stream is below 2^32 - 1 (in particular: fewer than 2^29 - 2 bytes between them) are reported as corrupted on both routes.
`two_bits_one_period_apart_undetected`: at a distance of exactly 2^32 - 1 bit positions the altered file is *not* reported
as corrupted - the statement of the property cannot hold beyond the period for any CRC-32, so the bound is not an
artefact of the proof.  (Such files are longer than 512 MiB.)
-/
import Sb.Properties.C05
import Sb.Proofs.CrcSharp

namespace Sb.C05
open Sb Sb.Spec Sb.Proofs Sb.Container

/-- the checksum (field zeroed) of a file with two flipped bits after the field is the checksum of the original xor
the checksum of the two-bit pattern -/
theorem fileCrc_two_bits (feat c0 c1 c2 c3 : UInt8) (pre mid post : Bytes) (x1 x2 : UInt8) (a1 a2 : Fin 8) :
    Spec.fileCrc ([0x73, 0x6b, 0x79, 0x62, 2, feat, c0, c1, c2, c3] ++
        (pre ++ [x1 ^^^ UInt8.ofNat (2 ^ a1.val)] ++ mid ++ [x2 ^^^ UInt8.ofNat (2 ^ a2.val)] ++ post))
      = Spec.fileCrc ([0x73, 0x6b, 0x79, 0x62, 2, feat, c0, c1, c2, c3] ++ (pre ++ [x1] ++ mid ++ [x2] ++ post))
        ^^^ crc 0 (zeros (10 + pre.length) ++ [UInt8.ofNat (2 ^ a1.val)] ++ zeros mid.length
              ++ [UInt8.ofNat (2 ^ a2.val)] ++ zeros post.length) := by
  have h1 : Spec.fileCrc ([0x73, 0x6b, 0x79, 0x62, 2, feat, c0, c1, c2, c3] ++ (pre ++ [x1] ++ mid ++ [x2] ++ post))
      = Spec.crc 0 (([0x73, 0x6b, 0x79, 0x62, 2, feat, 0, 0, 0, 0] ++ pre) ++ [x1] ++ mid ++ [x2] ++ post) := by
    unfold Spec.fileCrc zeroCrcField
    simp
  have h2 : Spec.fileCrc ([0x73, 0x6b, 0x79, 0x62, 2, feat, c0, c1, c2, c3] ++
        (pre ++ [x1 ^^^ UInt8.ofNat (2 ^ a1.val)] ++ mid ++ [x2 ^^^ UInt8.ofNat (2 ^ a2.val)] ++ post))
      = Spec.crc 0 (([0x73, 0x6b, 0x79, 0x62, 2, feat, 0, 0, 0, 0] ++ pre) ++ [x1 ^^^ UInt8.ofNat (2 ^ a1.val)] ++ mid
          ++ [x2 ^^^ UInt8.ofNat (2 ^ a2.val)] ++ post) := by
    unfold Spec.fileCrc zeroCrcField
    simp
  rw [h1, h2]
  have hlen : 10 + pre.length = ([0x73, 0x6b, 0x79, 0x62, 2, feat, 0, 0, 0, 0] ++ pre : Bytes).length := by
    simp; omega
  rw [hlen]
  generalize ([0x73, 0x6b, 0x79, 0x62, 2, feat, 0, 0, 0, 0] ++ pre : Bytes) = A
  have hx : A ++ [x1 ^^^ UInt8.ofNat (2 ^ a1.val)] ++ mid ++ [x2 ^^^ UInt8.ofNat (2 ^ a2.val)] ++ post
      = xorBytes (A ++ [x1] ++ mid ++ [x2] ++ post)
          (zeros A.length ++ [UInt8.ofNat (2 ^ a1.val)] ++ zeros mid.length ++ [UInt8.ofNat (2 ^ a2.val)] ++ zeros post.length) := by
    rw [xorBytes_append _ _ _ _ (by simp [zeros]), xorBytes_append _ _ _ _ (by simp [zeros]),
      xorBytes_append _ _ _ _ (by simp [zeros]), xorBytes_append _ _ _ _ (by simp [zeros]),
      xorBytes_zeros, xorBytes_zeros, xorBytes_zeros]
    rfl
  rw [hx, crc_of_corrupted _ _ (by simp [zeros])]

/-- **Two flipped bits in different bytes after the checksum field of an accepted file are reported as corrupted
whenever they are less than one period (2^32 - 1 bit positions) apart**, on both loading routes, whatever lies before,
between and after them. -/
theorem detect_two_bits_up_to_period (mem : Bool) (feat c0 c1 c2 c3 : UInt8) (pre mid post : Bytes) (x1 x2 : UInt8)
    (a1 a2 : Fin 8) (hf : feat.toNat &&& Gen.SB_BINARY_FEATURE_CRC32 ≠ 0)
    (hd : bitDistance mid.length a1 a2 < ordN)
    (hacc : init mem ([0x73, 0x6b, 0x79, 0x62, 2, feat, c0, c1, c2, c3] ++ (pre ++ [x1] ++ mid ++ [x2] ++ post))
      ≠ .error .ecorrupted) :
    init mem ([0x73, 0x6b, 0x79, 0x62, 2, feat, c0, c1, c2, c3] ++
      (pre ++ [x1 ^^^ UInt8.ofNat (2 ^ a1.val)] ++ mid ++ [x2 ^^^ UInt8.ofNat (2 ^ a2.val)] ++ post)) = .error .ecorrupted := by
  rw [accept_rule mem feat c0 c1 c2 c3 _ hf]
  rw [Ne, accept_rule mem feat c0 c1 c2 c3 _ hf, Ne, Classical.not_not] at hacc
  rw [hacc, fileCrc_two_bits]
  intro h
  have key : ∀ (x e : BitVec 32), x = x ^^^ e → e = 0 := by
    intro x e hxe
    have h3 := congrArg (x ^^^ ·) hxe
    simp only [← BitVec.xor_assoc, BitVec.xor_self, BitVec.zero_xor] at h3
    exact h3.symm
  exact crc_two_bits_ne_period _ _ _ a1 a2 hd (key _ _ h)

/-- the same with the bound in bytes: fewer than 2^29 - 2 = 536 870 910 bytes between the two altered bytes -/
theorem detect_two_bits_gap (mem : Bool) (feat c0 c1 c2 c3 : UInt8) (pre mid post : Bytes) (x1 x2 : UInt8)
    (a1 a2 : Fin 8) (hf : feat.toNat &&& Gen.SB_BINARY_FEATURE_CRC32 ≠ 0) (hmid : mid.length < 536870910)
    (hacc : init mem ([0x73, 0x6b, 0x79, 0x62, 2, feat, c0, c1, c2, c3] ++ (pre ++ [x1] ++ mid ++ [x2] ++ post))
      ≠ .error .ecorrupted) :
    init mem ([0x73, 0x6b, 0x79, 0x62, 2, feat, c0, c1, c2, c3] ++
      (pre ++ [x1 ^^^ UInt8.ofNat (2 ^ a1.val)] ++ mid ++ [x2 ^^^ UInt8.ofNat (2 ^ a2.val)] ++ post)) = .error .ecorrupted :=
  detect_two_bits_up_to_period mem feat c0 c1 c2 c3 pre mid post x1 x2 a1 a2 hf (bitDistance_lt _ a1 a2 hmid) hacc

/-- **Sharpness: two flipped bits exactly one period apart are not detected.**  An accepted file stays accepted by the
checksum test (it is never reported as corrupted data) when two bits 2^32 - 1 positions apart are flipped - on both
routes, at every position.  No implementation of the stated CRC-32 can do better, so "every file length" in the property
is to be read up to this distance; the unchanged library and the model agree here by `accept_rule`. -/
theorem two_bits_one_period_apart_undetected (mem : Bool) (feat c0 c1 c2 c3 : UInt8) (pre mid post : Bytes) (x1 x2 : UInt8)
    (a1 a2 : Fin 8) (hf : feat.toNat &&& Gen.SB_BINARY_FEATURE_CRC32 ≠ 0)
    (hd : bitDistance mid.length a1 a2 = ordN)
    (hacc : init mem ([0x73, 0x6b, 0x79, 0x62, 2, feat, c0, c1, c2, c3] ++ (pre ++ [x1] ++ mid ++ [x2] ++ post))
      ≠ .error .ecorrupted) :
    init mem ([0x73, 0x6b, 0x79, 0x62, 2, feat, c0, c1, c2, c3] ++
      (pre ++ [x1 ^^^ UInt8.ofNat (2 ^ a1.val)] ++ mid ++ [x2 ^^^ UInt8.ofNat (2 ^ a2.val)] ++ post)) ≠ .error .ecorrupted := by
  rw [Ne, accept_rule mem feat c0 c1 c2 c3 _ hf, Ne, Classical.not_not] at hacc ⊢
  rw [fileCrc_two_bits, crc_two_bits_at_period _ _ _ a1 a2 hd, hacc]
  simp

/-- the hypotheses of the sharpness theorem are met by a gap of 2^29 - 2 bytes with bit 0 and bit 7 -/
example : bitDistance 536870910 ⟨0, by omega⟩ ⟨7, by omega⟩ = ordN := bitDistance_period_example

/-- the hypotheses of the detection theorem are met by adjacent bytes (any bit pair) -/
example (a1 a2 : Fin 8) : bitDistance 0 a1 a2 < ordN := bitDistance_lt 0 a1 a2 (by omega)

/-! ### one bit of the stored word together with one bit of the data, up to the period -/

/-- the checksum (field zeroed) of a file with one flipped data bit after the field - whatever the field holds - is the
checksum of the original xor the checksum of the one-bit pattern -/
theorem fileCrc_one_bit (feat c0 c1 c2 c3 d0 d1 d2 d3 : UInt8) (pre post : Bytes) (x : UInt8) (a : Fin 8) :
    Spec.fileCrc ([0x73, 0x6b, 0x79, 0x62, 2, feat, d0, d1, d2, d3] ++ (pre ++ [x ^^^ UInt8.ofNat (2 ^ a.val)] ++ post))
      = Spec.fileCrc ([0x73, 0x6b, 0x79, 0x62, 2, feat, c0, c1, c2, c3] ++ (pre ++ [x] ++ post))
        ^^^ crc 0 (zeros (10 + pre.length) ++ [UInt8.ofNat (2 ^ a.val)] ++ zeros post.length) := by
  have h1 : Spec.fileCrc ([0x73, 0x6b, 0x79, 0x62, 2, feat, c0, c1, c2, c3] ++ (pre ++ [x] ++ post))
      = Spec.crc 0 (([0x73, 0x6b, 0x79, 0x62, 2, feat, 0, 0, 0, 0] ++ pre) ++ [x] ++ post) := by
    unfold Spec.fileCrc zeroCrcField
    simp
  have h2 : Spec.fileCrc ([0x73, 0x6b, 0x79, 0x62, 2, feat, d0, d1, d2, d3] ++ (pre ++ [x ^^^ UInt8.ofNat (2 ^ a.val)] ++ post))
      = Spec.crc 0 (([0x73, 0x6b, 0x79, 0x62, 2, feat, 0, 0, 0, 0] ++ pre) ++ [x ^^^ UInt8.ofNat (2 ^ a.val)] ++ post) := by
    unfold Spec.fileCrc zeroCrcField
    simp
  rw [h1, h2]
  have hlen : 10 + pre.length = ([0x73, 0x6b, 0x79, 0x62, 2, feat, 0, 0, 0, 0] ++ pre : Bytes).length := by
    simp; omega
  rw [hlen]
  generalize ([0x73, 0x6b, 0x79, 0x62, 2, feat, 0, 0, 0, 0] ++ pre : Bytes) = A
  have hx : A ++ [x ^^^ UInt8.ofNat (2 ^ a.val)] ++ post
      = xorBytes (A ++ [x] ++ post) (zeros A.length ++ [UInt8.ofNat (2 ^ a.val)] ++ zeros post.length) := by
    rw [xorBytes_append _ _ _ _ (by simp [zeros]), xorBytes_append _ _ _ _ (by simp [zeros]), xorBytes_zeros, xorBytes_zeros]
    rfl
  rw [hx, crc_of_corrupted _ _ (by simp [zeros])]

/-- **One flipped bit of the stored checksum word together with one flipped data bit less than one period before the end
of the file** (in particular: fewer than 2^29 - 5 bytes after it) is reported as corrupted, on both routes. -/
theorem detect_field_bit_and_data_bit_up_to_period (mem : Bool) (feat c0 c1 c2 c3 d0 d1 d2 d3 : UInt8) (pre post : Bytes)
    (x : UInt8) (a : Fin 8) (k : Fin 32) (hf : feat.toNat &&& Gen.SB_BINARY_FEATURE_CRC32 ≠ 0)
    (hd : fieldDistance post.length a k < ordN)
    (hflip : le32 [d0, d1, d2, d3] = le32 [c0, c1, c2, c3] ^^^ basis k.val)
    (hacc : init mem ([0x73, 0x6b, 0x79, 0x62, 2, feat, c0, c1, c2, c3] ++ (pre ++ [x] ++ post)) ≠ .error .ecorrupted) :
    init mem ([0x73, 0x6b, 0x79, 0x62, 2, feat, d0, d1, d2, d3] ++ (pre ++ [x ^^^ UInt8.ofNat (2 ^ a.val)] ++ post))
      = .error .ecorrupted := by
  rw [accept_rule mem feat d0 d1 d2 d3 _ hf]
  rw [Ne, accept_rule mem feat c0 c1 c2 c3 _ hf, Ne, Classical.not_not] at hacc
  rw [hflip, hacc, fileCrc_one_bit feat c0 c1 c2 c3 d0 d1 d2 d3]
  intro h
  have key : ∀ (u v w : BitVec 32), u ^^^ v = u ^^^ w → v = w := by
    intro u v w huv
    have h3 := congrArg (u ^^^ ·) huv
    simp only [← BitVec.xor_assoc, BitVec.xor_self, BitVec.zero_xor] at h3
    exact h3
  exact crc_one_bit_ne_basis_period _ _ a k hd (key _ _ _ h).symm

/-- **Sharpness of the mixed case**: a flipped data bit exactly one period before the register position of a flipped bit
of the stored word compensates it - the file is not reported as corrupted. -/
theorem field_bit_and_data_bit_one_period_apart_undetected (mem : Bool) (feat c0 c1 c2 c3 d0 d1 d2 d3 : UInt8)
    (pre post : Bytes) (x : UInt8) (a : Fin 8) (k : Fin 32) (hf : feat.toNat &&& Gen.SB_BINARY_FEATURE_CRC32 ≠ 0)
    (hd : fieldDistance post.length a k = ordN)
    (hflip : le32 [d0, d1, d2, d3] = le32 [c0, c1, c2, c3] ^^^ basis k.val)
    (hacc : init mem ([0x73, 0x6b, 0x79, 0x62, 2, feat, c0, c1, c2, c3] ++ (pre ++ [x] ++ post)) ≠ .error .ecorrupted) :
    init mem ([0x73, 0x6b, 0x79, 0x62, 2, feat, d0, d1, d2, d3] ++ (pre ++ [x ^^^ UInt8.ofNat (2 ^ a.val)] ++ post))
      ≠ .error .ecorrupted := by
  rw [Ne, accept_rule mem feat d0 d1 d2 d3 _ hf, Ne, Classical.not_not]
  rw [Ne, accept_rule mem feat c0 c1 c2 c3 _ hf, Ne, Classical.not_not] at hacc
  rw [hflip, hacc, fileCrc_one_bit feat c0 c1 c2 c3 d0 d1 d2 d3, crc_one_bit_eq_basis_at_period _ _ a k hd]

example : fieldDistance 536870910 ⟨0, by omega⟩ ⟨7, by omega⟩ = ordN := fieldDistance_period_example
example (a : Fin 8) (k : Fin 32) : fieldDistance 0 a k < ordN := fieldDistance_lt 0 a k (by omega)

/-- non-vacuity on a concrete accepted file (header + comment block `03 01 00 41`, stored value 0xcf4d175e): bit 2 of
its first data byte and bit 5 of its last one flipped - reported as corrupted on the memory route -/
example : init true ([0x73, 0x6b, 0x79, 0x62, 2, 1, 94, 23, 77, 207] ++
    (([] : Bytes) ++ [3 ^^^ UInt8.ofNat (2 ^ 2)] ++ [1, 0] ++ [0x41 ^^^ UInt8.ofNat (2 ^ 5)] ++ [])) = .error .ecorrupted := by
  apply detect_two_bits_gap true 1 94 23 77 207 [] [1, 0] [] 3 0x41 ⟨2, by omega⟩ ⟨5, by omega⟩ (by decide) (by decide)
  rw [Ne, accept_rule true 1 94 23 77 207 _ (by decide), Ne, Classical.not_not]
  decide +kernel

/-! ### the general criterion: detection depends on the error pattern alone -/

/-- **Error-pattern criterion.**  Take an accepted checksummed file, alter the data after the field by any pattern
`erest` (xor, same length) and the stored word by any `δ`.  The altered file escapes the checksum test exactly when `δ`
equals the checksum of the pattern (placed behind ten zero bytes) - whatever the file is.  Every detection clause of the
property is this criterion applied to a pattern whose checksum is known to differ from `δ`: `δ ≠ 0` with no data
change (`detect_in_field`), `δ = 0` with a window of at most four bytes or two bits less than a period apart, `δ` one
bit with one data bit (`crc_one_bit_ne_basis_period`). -/
theorem corruption_undetected_iff (mem : Bool) (feat c0 c1 c2 c3 d0 d1 d2 d3 : UInt8) (rest erest : Bytes) (δ : BitVec 32)
    (hf : feat.toNat &&& Gen.SB_BINARY_FEATURE_CRC32 ≠ 0) (hlen : rest.length = erest.length)
    (hfield : le32 [d0, d1, d2, d3] = le32 [c0, c1, c2, c3] ^^^ δ)
    (hacc : init mem ([0x73, 0x6b, 0x79, 0x62, 2, feat, c0, c1, c2, c3] ++ rest) ≠ .error .ecorrupted) :
    init mem ([0x73, 0x6b, 0x79, 0x62, 2, feat, d0, d1, d2, d3] ++ xorBytes rest erest) ≠ .error .ecorrupted ↔
      δ = crc 0 (zeros 10 ++ erest) := by
  rw [Ne, accept_rule mem feat d0 d1 d2 d3 _ hf, Ne, Classical.not_not]
  rw [Ne, accept_rule mem feat c0 c1 c2 c3 _ hf, Ne, Classical.not_not] at hacc
  have h1 : Spec.fileCrc ([0x73, 0x6b, 0x79, 0x62, 2, feat, c0, c1, c2, c3] ++ rest)
      = Spec.crc 0 ([0x73, 0x6b, 0x79, 0x62, 2, feat, 0, 0, 0, 0] ++ rest) := by
    unfold Spec.fileCrc zeroCrcField
    simp
  have h2 : Spec.fileCrc ([0x73, 0x6b, 0x79, 0x62, 2, feat, d0, d1, d2, d3] ++ xorBytes rest erest)
      = Spec.crc 0 ([0x73, 0x6b, 0x79, 0x62, 2, feat, 0, 0, 0, 0] ++ xorBytes rest erest) := by
    unfold Spec.fileCrc zeroCrcField
    simp
  have hx : ([0x73, 0x6b, 0x79, 0x62, 2, feat, 0, 0, 0, 0] : Bytes) ++ xorBytes rest erest
      = xorBytes ([0x73, 0x6b, 0x79, 0x62, 2, feat, 0, 0, 0, 0] ++ rest) (zeros 10 ++ erest) := by
    rw [xorBytes_append _ _ _ _ (by simp [zeros])]
    have := xorBytes_zeros ([0x73, 0x6b, 0x79, 0x62, 2, feat, 0, 0, 0, 0] : Bytes)
    simp only [List.length_cons, List.length_nil] at this
    rw [this]
  rw [hfield, hacc, h1, h2, hx, crc_of_corrupted _ _ (by simp [zeros, hlen])]
  constructor
  · intro h
    have h3 := congrArg (crc 0 ([0x73, 0x6b, 0x79, 0x62, 2, feat, 0, 0, 0, 0] ++ rest) ^^^ ·) h
    simp only [← BitVec.xor_assoc, BitVec.xor_self, BitVec.zero_xor] at h3
    exact h3
  · intro h
    rw [h]

/-- corollary: with the stored word untouched, an alteration of the data goes unnoticed exactly when the pattern's
checksum is zero -/
theorem data_corruption_undetected_iff (mem : Bool) (feat c0 c1 c2 c3 : UInt8) (rest erest : Bytes)
    (hf : feat.toNat &&& Gen.SB_BINARY_FEATURE_CRC32 ≠ 0) (hlen : rest.length = erest.length)
    (hacc : init mem ([0x73, 0x6b, 0x79, 0x62, 2, feat, c0, c1, c2, c3] ++ rest) ≠ .error .ecorrupted) :
    init mem ([0x73, 0x6b, 0x79, 0x62, 2, feat, c0, c1, c2, c3] ++ xorBytes rest erest) ≠ .error .ecorrupted ↔
      crc 0 (zeros 10 ++ erest) = 0 := by
  rw [corruption_undetected_iff mem feat c0 c1 c2 c3 c0 c1 c2 c3 rest erest 0 hf hlen (by simp) hacc]
  exact eq_comm

/-! ### any two distinct bit positions of the data, in any order, same byte or not -/

/-- the pattern with bit `a` of byte `i` set in `n` bytes -/
def bitPat (n i : Nat) (a : Fin 8) : Bytes := zeros i ++ [UInt8.ofNat (2 ^ a.val)] ++ zeros (n - i - 1)

theorem bitPat_length (n i : Nat) (a : Fin 8) (h : i < n) : (bitPat n i a).length = n := by
  simp [bitPat, zeros]; omega

/-- its checksum behind the ten header bytes is the monomial whose exponent counts the register steps to the end -/
theorem crc_bitPat (n i : Nat) (a : Fin 8) :
    crc 0 (zeros 10 ++ bitPat n i a) = step1^[8 * (n - i - 1) + 8 + (31 - a.val)] e0 := by
  have h := crc_one_bit_as_iterate (10 + i) (n - i - 1) a
  have hz : zeros (10 + i) = zeros 10 ++ zeros i := by simp [zeros, List.replicate_add]
  rw [hz] at h
  simpa [bitPat, List.append_assoc] using h

/-- **Two flipped bits at any two distinct positions of the data of an accepted file** - same byte or different bytes,
in either order - are reported as corrupted, on both routes, for every file with fewer than 2^29 - 8 data bytes. -/
theorem detect_two_distinct_data_bits (mem : Bool) (feat c0 c1 c2 c3 : UInt8) (rest : Bytes) (i1 i2 : Nat) (a1 a2 : Fin 8)
    (hf : feat.toNat &&& Gen.SB_BINARY_FEATURE_CRC32 ≠ 0)
    (h1 : i1 < rest.length) (h2 : i2 < rest.length) (hne : i1 ≠ i2 ∨ a1 ≠ a2) (hn : rest.length < 536870904)
    (hacc : init mem ([0x73, 0x6b, 0x79, 0x62, 2, feat, c0, c1, c2, c3] ++ rest) ≠ .error .ecorrupted) :
    init mem ([0x73, 0x6b, 0x79, 0x62, 2, feat, c0, c1, c2, c3] ++
      xorBytes rest (xorBytes (bitPat rest.length i1 a1) (bitPat rest.length i2 a2))) = .error .ecorrupted := by
  have hl1 := bitPat_length rest.length i1 a1 h1
  have hl2 := bitPat_length rest.length i2 a2 h2
  have hlen : rest.length = (xorBytes (bitPat rest.length i1 a1) (bitPat rest.length i2 a2)).length := by
    simp [xorBytes, hl1, hl2]
  by_contra hcon
  have hund := (data_corruption_undetected_iff mem feat c0 c1 c2 c3 rest _ hf hlen hacc).mp hcon
  have hsplit : zeros 10 ++ xorBytes (bitPat rest.length i1 a1) (bitPat rest.length i2 a2)
      = xorBytes (zeros 10 ++ bitPat rest.length i1 a1) (zeros 10 ++ bitPat rest.length i2 a2) := by
    rw [xorBytes_append _ _ _ _ rfl]
    have := xorBytes_zeros (zeros 10)
    simp only [zeros, List.length_replicate] at this ⊢
    rw [this]
  rw [hsplit, crc_of_corrupted _ _ (by simp [zeros, hl1, hl2]), crc_bitPat, crc_bitPat] at hund
  have heq : step1^[8 * (rest.length - i1 - 1) + 8 + (31 - a1.val)] e0
      = step1^[8 * (rest.length - i2 - 1) + 8 + (31 - a2.val)] e0 := by
    have h3 := congrArg (· ^^^ step1^[8 * (rest.length - i2 - 1) + 8 + (31 - a2.val)] e0) hund
    simpa [BitVec.xor_assoc] using h3
  have ha1 := a1.isLt
  have ha2 := a2.isLt
  have hav : a1 ≠ a2 ↔ a1.val ≠ a2.val := by
    constructor
    · intro h hv; exact h (Fin.ext hv)
    · intro h hv; exact h (by rw [hv])
  rw [hav] at hne
  rcases Nat.lt_or_ge (8 * (rest.length - i2 - 1) + 8 + (31 - a2.val)) (8 * (rest.length - i1 - 1) + 8 + (31 - a1.val)) with hlt | hge
  · have hc := iterate_cancel _ _ (Nat.le_of_lt hlt) e0 heq
    exact no_small_period _ (by omega) (by unfold ordN; omega) hc
  · have hc := iterate_cancel _ _ hge e0 heq.symm
    exact no_small_period _ (by omega) (by unfold ordN; omega) hc

/-- non-vacuity: bits 0 and 7 of one byte (the third data byte) of the concrete accepted file -/
example : init false ([0x73, 0x6b, 0x79, 0x62, 2, 1, 94, 23, 77, 207] ++
    xorBytes [3, 1, 0, 0x41] (xorBytes (bitPat ([3, 1, 0, 0x41] : Bytes).length 2 ⟨0, by omega⟩)
      (bitPat ([3, 1, 0, 0x41] : Bytes).length 2 ⟨7, by omega⟩))) = .error .ecorrupted := by
  apply detect_two_distinct_data_bits false 1 94 23 77 207 [3, 1, 0, 0x41] 2 2 ⟨0, by omega⟩ ⟨7, by omega⟩ (by decide)
    (by decide) (by decide) (Or.inr (by decide)) (by decide)
  rw [Ne, accept_rule false 1 94 23 77 207 _ (by decide), Ne, Classical.not_not]
  decide +kernel

/-! ### the criterion on raw bytes: the stored word is little-endian and xor acts bytewise on it -/

theorem byte4_testBit (n0 n1 n2 n3 : Nat) (h0 : n0 < 256) (h1 : n1 < 256) (h2 : n2 < 256) (j : Nat) :
    (n0 + 256 * n1 + 65536 * n2 + 16777216 * n3).testBit j =
      if j < 8 then n0.testBit j else if j < 16 then n1.testBit (j - 8)
      else if j < 24 then n2.testBit (j - 16) else n3.testBit (j - 24) := by
  have e : n0 + 256 * n1 + 65536 * n2 + 16777216 * n3
      = 2 ^ 8 * (2 ^ 8 * (2 ^ 8 * n3 + n2) + n1) + n0 := by omega
  rw [e, Nat.testBit_two_pow_mul_add _ (by omega)]
  split
  · rfl
  · rw [Nat.testBit_two_pow_mul_add _ (by omega)]
    split
    · rw [if_pos (by omega)]
    · rw [if_neg (by omega), Nat.testBit_two_pow_mul_add _ (by omega)]
      split
      · rw [if_pos (by omega), show j - 8 - 8 = j - 16 by omega]
      · rw [if_neg (by omega), show j - 8 - 8 - 8 = j - 24 by omega]

theorem le32_xor (a0 a1 a2 a3 e0 e1 e2 e3 : UInt8) :
    le32 [a0 ^^^ e0, a1 ^^^ e1, a2 ^^^ e2, a3 ^^^ e3] = le32 [a0, a1, a2, a3] ^^^ le32 [e0, e1, e2, e3] := by
  have ha0 := a0.toNat_lt; have ha1 := a1.toNat_lt; have ha2 := a2.toNat_lt
  have he0 := e0.toNat_lt; have he1 := e1.toNat_lt; have he2 := e2.toNat_lt
  have hx0 : a0.toNat ^^^ e0.toNat < 256 := Nat.xor_lt_two_pow (n := 8) ha0 he0
  have hx1 : a1.toNat ^^^ e1.toNat < 256 := Nat.xor_lt_two_pow (n := 8) ha1 he1
  have hx2 : a2.toNat ^^^ e2.toNat < 256 := Nat.xor_lt_two_pow (n := 8) ha2 he2
  apply BitVec.eq_of_getLsbD_eq
  intro i hi
  simp only [le32, BitVec.getLsbD_xor, BitVec.getLsbD_ofNat, UInt8.toNat_xor]
  rw [byte4_testBit _ _ _ _ hx0 hx1 hx2, byte4_testBit _ _ _ _ ha0 ha1 ha2, byte4_testBit _ _ _ _ he0 he1 he2]
  simp only [hi, decide_true, Bool.true_and]
  split
  · exact Nat.testBit_xor ..
  · split
    · exact Nat.testBit_xor ..
    · split <;> exact Nat.testBit_xor ..

/-- **Error-pattern criterion, on the bytes of the file.**  Xor any four bytes `e0..e3` into the checksum field and any
pattern `erest` into the data of an accepted file: the result escapes the checksum test exactly when the little-endian
word `e0..e3` is the checksum of the data pattern. -/
theorem corruption_undetected_iff_bytes (mem : Bool) (feat c0 c1 c2 c3 e0 e1 e2 e3 : UInt8) (rest erest : Bytes)
    (hf : feat.toNat &&& Gen.SB_BINARY_FEATURE_CRC32 ≠ 0) (hlen : rest.length = erest.length)
    (hacc : init mem ([0x73, 0x6b, 0x79, 0x62, 2, feat, c0, c1, c2, c3] ++ rest) ≠ .error .ecorrupted) :
    init mem ([0x73, 0x6b, 0x79, 0x62, 2, feat, c0 ^^^ e0, c1 ^^^ e1, c2 ^^^ e2, c3 ^^^ e3] ++ xorBytes rest erest)
        ≠ .error .ecorrupted ↔
      le32 [e0, e1, e2, e3] = crc 0 (zeros 10 ++ erest) :=
  corruption_undetected_iff mem feat c0 c1 c2 c3 _ _ _ _ rest erest _ hf hlen (le32_xor c0 c1 c2 c3 e0 e1 e2 e3) hacc

end Sb.C05
