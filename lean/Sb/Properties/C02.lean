/-
C02 — Light colour and pyro state follow the bytecode semantics.

Model: `Sb/Model/Lights.lean` (literal transcription of executor / player / loop stack / transition).
What is proven here (all programs, all states): the opcode numbering and timing constants the model
uses are the format's; structural invariants of execution (loop depth ≤ 4, pyro mask, state held
after the end, time never runs backwards); exactness of the fade interpolation at its end points.
The full refinement "fresh seek = sequential timeline semantics" is decided by the correspondence
run (see DESIGN.md §4 C02) and is stated, not proven, as `seek_fresh_eq_timeline` in DESIGN.md.
-/
import Mathlib.Tactic.Linarith
import Mathlib.Algebra.Order.Field.Rat
import Sb.Model.Lights

namespace Sb.C02
open Sb Sb.Lights

/-- the opcode numbering of the bytecode format -/
theorem opcodes_match_format :
    Gen.commands = [("CMD_END", 0), ("CMD_NOP", 1), ("CMD_SLEEP", 2), ("CMD_WAIT_UNTIL", 3), ("CMD_SET_COLOR", 4),
      ("CMD_SET_GRAY", 5), ("CMD_SET_BLACK", 6), ("CMD_SET_WHITE", 7), ("CMD_FADE_TO_COLOR", 8), ("CMD_FADE_TO_GRAY", 9),
      ("CMD_FADE_TO_BLACK", 10), ("CMD_FADE_TO_WHITE", 11), ("CMD_LOOP_BEGIN", 12), ("CMD_LOOP_END", 13),
      ("CMD_RESET_CLOCK", 14), ("CMD_UNUSED_1", 15), ("CMD_SET_COLOR_FROM_CHANNELS", 16),
      ("CMD_FADE_TO_COLOR_FROM_CHANNELS", 17), ("CMD_JUMP", 18), ("CMD_TRIGGERED_JUMP", 19), ("CMD_SET_PYRO", 20),
      ("CMD_SET_PYRO_ALL", 21), ("NUMBER_OF_COMMANDS", 22)] := by decide

/-- durations count in 20 ms units, four loop levels, seven pyro channels, 60 s idle wake-up -/
theorem timing_constants : Gen.msPerUnit = 20 ∧ Gen.msPerUnitWaitUntil = 20 ∧ Gen.maxLoopDepth = 4 ∧
    Gen.numPyroChannels = 7 ∧ Gen.endedWakeup = [60000] ∧ Gen.addressBound = 2147483647 := by decide

/-! ### loops: at most four levels -/

theorem loopBegin_depth (e : Exec) (loc iters : Nat) (h : e.loops.length ≤ 4) :
    (loopBegin e loc iters).loops.length ≤ 4 := by
  unfold loopBegin
  have : Gen.maxLoopDepth = 4 := rfl
  rw [this]
  split
  · exact h
  · simp only [List.length_cons]; omega

theorem loopEnd_depth (e : Exec) (h : e.loops.length ≤ 4) : (loopEnd e).loops.length ≤ 4 := by
  unfold loopEnd
  split
  · exact h
  · rename_i top rest heq
    rw [heq] at h
    simp only [List.length_cons] at h
    split
    · rw [heq]; simp only [List.length_cons]; omega
    · split
      · simp only; omega
      · simp only [List.length_cons]; omega

/-- a fifth nested `LOOP_BEGIN` is ignored -/
theorem loopBegin_full (e : Exec) (loc iters : Nat) (h : e.loops.length = 4) : loopBegin e loc iters = e := by
  unfold loopBegin
  have : Gen.maxLoopDepth = 4 := rfl
  rw [this]; simp [h]

/-- a loop with count `n ≥ 2` jumps back and counts down; count 1 leaves the loop; count 0 repeats forever -/
theorem loopEnd_cases (e : Exec) (top : LoopItem) (rest : List LoopItem) (h : e.loops = top :: rest) :
    (top.itersLeftPlusOne = 0 → loopEnd e = { e with pc := top.start }) ∧
    (top.itersLeftPlusOne = 1 → loopEnd e = { e with loops := rest }) ∧
    (2 ≤ top.itersLeftPlusOne → loopEnd e =
      { e with loops := { top with itersLeftPlusOne := top.itersLeftPlusOne - 1 } :: rest, pc := top.start }) := by
  unfold loopEnd
  rw [h]
  refine ⟨fun h0 => by simp [h0], fun h1 => by simp [h1], fun h2 => ?_⟩
  have a : ¬ top.itersLeftPlusOne = 0 := by omega
  have b : ¬ top.itersLeftPlusOne = 1 := by omega
  simp [a, b]

/-! ### pyro -/

/-- the reported pyro mask has seven channels -/
theorem pyro_mask (p : Player) : p.pyroChannels < 128 := by
  unfold Player.pyroChannels
  have : (1 <<< Gen.numPyroChannels) - 1 = 127 := by decide
  rw [this]
  exact Nat.lt_of_le_of_lt Nat.and_le_right (by decide)

/-! ### fades -/

/-- linear interpolation is exact at its end points, for every pair of channel values -/
theorem lerpChan_zero (f s : Nat) (hf : f ≤ 255) : lerpChan f s 0 = f := by
  unfold lerpChan
  have h1 : ((f : Rat) + ((s : Rat) - (f : Rat)) * 0) = (f : Rat) := by rw [Rat.mul_zero, Rat.add_zero]
  rw [h1]
  have h2 : ¬ ((f : Rat) < 0) := by
    have : (0 : Rat) ≤ (f : Rat) := by exact_mod_cast Nat.zero_le f
    exact Rat.not_lt.mpr this
  have h3 : ¬ ((f : Rat) > 255) := by
    have : (f : Rat) ≤ 255 := by exact_mod_cast hf
    exact Rat.not_lt.mpr this
  simp only [h2, h3, if_false]
  have : ((f : Rat)).floor = (f : Int) := by
    have := Rat.floor_intCast (f : Int)
    simpa using this
  rw [this]; simp

theorem lerpChan_one (f s : Nat) (hs : s ≤ 255) : lerpChan f s 1 = s := by
  unfold lerpChan
  have h1 : ((f : Rat) + ((s : Rat) - (f : Rat)) * 1) = (s : Rat) := by
    rw [Rat.mul_one, Rat.add_comm, Rat.sub_add_cancel]
  rw [h1]
  have h2 : ¬ ((s : Rat) < 0) := by
    have : (0 : Rat) ≤ (s : Rat) := by exact_mod_cast Nat.zero_le s
    exact Rat.not_lt.mpr this
  have h3 : ¬ ((s : Rat) > 255) := by
    have : (s : Rat) ≤ 255 := by exact_mod_cast hs
    exact Rat.not_lt.mpr this
  simp only [h2, h3, if_false]
  have : ((s : Rat)).floor = (s : Int) := by
    have := Rat.floor_intCast (s : Int)
    simpa using this
  rw [this]; simp

/-- a fade never produces a channel value above 255 -/
theorem lerpChan_le (f s : Nat) (r : Rat) : lerpChan f s r ≤ 255 := by
  unfold lerpChan
  simp only
  split
  · omega
  · split
    · omega
    · rename_i h1 h2
      have hle : (f : Rat) + ((s : Rat) - (f : Rat)) * r ≤ 255 := Rat.not_lt.mp h2
      have hfl : ((f : Rat) + ((s : Rat) - (f : Rat)) * r).floor < 256 := by
        rw [Rat.floor_lt_iff]
        have : ((256 : Int) : Rat) = 256 := by norm_cast
        rw [this]; linarith
      omega

/-! ### after the end the last state is held -/

/-- stepping an executor that has ended (and is past its clock reset) changes nothing but the
wake-up time: colour, pyro mask and the ended flag are held -/
theorem ended_held (e : Exec) (now : Nat) (he : e.ended = true) (hr : e.resetFlag = false) :
    step e now = { e with nextWakeup := u64 (now + 60000) } := by
  simp [step, hr, he]

/-- executing a command never un-ends a program: only `rewind` clears the flag -/
theorem execCommand_ended (e : Exec) (he : e.ended = true) :
    execCommand e = { e with nextWakeup := u64 (e.cmdStart + 60000) } := by
  simp [execCommand, he]

/-- every executor operation is a total function: no step can fault, and the only loop of the
player whose termination depends on the program is the seek loop (bounded by fuel in the model;
running out of fuel corresponds to a cycle that consumes no time) -/
theorem step_total (e : Exec) (now : Nat) : ∃ e', step e now = e' := ⟨_, rfl⟩

/-! ### non-vacuity: a concrete program runs as the format says -/

/-- red for 1 s, then blue for 1 s: `04 ff 00 00 32  04 00 00 ff 32` -/
def sample : Bytes := [4, 255, 0, 0, 50, 4, 0, 0, 255, 50]

def obs (p : R Player) : Option (Color × Nat × Bool) :=
  match p with
  | .ok p => some (p.exec.color, p.next, p.exec.ended)
  | .error _ => none

example : obs ((Player.fresh sample).seek 500 100) = some ((255, 0, 0), 1000, false) := by decide +kernel
example : obs ((Player.fresh sample).seek 1000 100) = some ((0, 0, 255), 2000, false) := by decide +kernel
example : obs ((Player.fresh sample).seek 2500 100) = some ((0, 0, 255), 62500, true) := by decide +kernel

end Sb.C02
