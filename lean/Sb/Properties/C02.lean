import Sb.Model.Lights
