/-
C07 — Velocity and acceleration are the time derivatives of the position.

For a segment that starts at `T` seconds and lasts `D` seconds, the position in absolute time is
τ ↦ P((τ − T)/D) with P the segment polynomial of an axis (`inTime`).  The cached derivative
polynomials the player evaluates are exactly the first and second derivative of that function with
respect to τ — for every degree (the statement is about arbitrary coefficient lists) and every
duration with |D| > 10⁻⁶ s (every duration ≥ 1 ms).
-/
import Sb.Proofs.PolyCalculus
import Sb.Properties.C08

namespace Sb.C07
open Polynomial Sb Sb.Poly Sb.Traj Sb.Proofs

/-- an axis selector -/
inductive Axis | x | y | z | yaw
def Axis.of (a : Axis) (p : Poly4) : Poly :=
  match a with
  | .x => p.x | .y => p.y | .z => p.z | .yaw => p.yaw
def Axis.ofVec (a : Axis) (v : Vec4) : Rat :=
  match a with
  | .x => v.x | .y => v.y | .z => v.z | .yaw => v.yaw

theorem axis_eval (a : Axis) (p : Poly4) (u : Rat) : a.ofVec (p.eval u) = Poly.eval (a.of p) u := by
  cases a <;> rfl
theorem axis_deriv (a : Axis) (p : Poly4) : a.of p.deriv = Poly.deriv (a.of p) := by cases a <;> rfl
theorem axis_scale (a : Axis) (p : Poly4) (k : Rat) : a.of (p.scale k) = Poly.scale (a.of p) k := by
  cases a <;> rfl

/-- the first-derivative polynomial from scratch, for a segment of duration `D` -/
theorem dOf_eq (s : Seg) (D : Rat) (hD : s.durSec = some D) (hpos : absR D > 1 / 1000000) :
    dOf s = s.poly.deriv.scale (1 / D) := by
  simp only [dOf, getDpoly, clearCache, hD]
  rw [if_pos hpos]

theorem ddOf_scaled (s : Seg) (D : Rat) (hD : s.durSec = some D) (hpos : absR D > 1 / 1000000) :
    ddOf s = (dOf s).deriv.scale (1 / D) := by
  rw [ddOf_eq]; simp only [hD]; rw [if_pos hpos]

/-- **Velocity is the time derivative of the position**, on every axis, for every polynomial
degree and every admissible duration. -/
theorem velocity_is_derivative (s : Seg) (D T τ : Rat) (a : Axis)
    (hD : s.durSec = some D) (hpos : absR D > 1 / 1000000) :
    a.ofVec ((dOf s).eval ((τ - T) / D)) = (derivative (inTime (toPoly (a.of s.poly)) T D)).eval τ := by
  rw [dOf_eq s D hD hpos, axis_eval, axis_scale, axis_deriv, eval_scale, eval_deriv, derivative_inTime,
    eval_mul, eval_C, eval_inTime]

/-- **Acceleration is the second time derivative of the position.** -/
theorem acceleration_is_second_derivative (s : Seg) (D T τ : Rat) (a : Axis)
    (hD : s.durSec = some D) (hpos : absR D > 1 / 1000000) :
    a.ofVec ((ddOf s).eval ((τ - T) / D)) =
      (derivative (derivative (inTime (toPoly (a.of s.poly)) T D))).eval τ := by
  rw [ddOf_scaled s D hD hpos, dOf_eq s D hD hpos, axis_eval, axis_scale, axis_deriv, axis_scale, axis_deriv,
    eval_scale, eval_deriv, toPoly_scale, toPoly_deriv]
  rw [derivative_inTime]
  simp only [derivative_mul, derivative_C, zero_mul, zero_add, derivative_inTime, eval_mul, eval_C, eval_inTime]

/-- the position itself, in the same form -/
theorem position_in_time (s : Seg) (D T τ : Rat) (a : Axis) :
    a.ofVec (s.poly.eval ((τ - T) / D)) = (inTime (toPoly (a.of s.poly)) T D).eval τ := by
  rw [axis_eval, eval_inTime, eval_toPoly]

/-- **Beyond the end** velocity and acceleration are zero: the terminal pseudo-segment holds a
constant. -/
theorem beyond_end_zero (sec : Nat → Rat) (off T : Nat) (start : Vec4) (u : Rat) :
    (dOf (terminalSeg sec off T start)).eval u = ⟨0, 0, 0, 0⟩ ∧
    (ddOf (terminalSeg sec off T start)).eval u = ⟨0, 0, 0, 0⟩ := by
  constructor <;>
    simp [dOf, ddOf, getDpoly, getDdpoly, clearCache, terminalSeg, Poly4.const, Poly4.deriv, Poly4.scale, Poly4.eval,
      Poly.deriv, Poly.scale, Poly.eval, makeZero]

/-- **Before time zero** every query is answered as at time zero (the clamp `if (t <= 0) t = 0`). -/
theorem before_zero_eq_at_zero (q : Rat) (hq : q ≤ 0) : QTime.ofF32 (.fin q) = QTime.ofF32 (.fin 0) := by
  simp [QTime.ofF32, hq]

theorem neg_inf_eq_at_zero : QTime.ofF32 .ninf = QTime.ofF32 (.fin 0) := by simp [QTime.ofF32]

/-- what the player returns for a velocity / acceleration query is the evaluation of these
polynomials on the segment it lands on (from `Sb.C08.runQuery_spec`), at the relative time
`(t − start)/D` of that segment -/
theorem relT_form (s : Seg) (D q : Rat) (hD : s.durSec = some D) (hpos : absR D > 1 / 1000000) :
    relT s (.fin q) = (q - s.startSec) / D := by
  simp only [relT, hD]; rw [if_pos hpos]

/-! ### non-vacuity: a cubic segment of 2 s -/
example : absR (2 : Rat) > 1 / 1000000 := by unfold absR; norm_num

end Sb.C07
