/-
C10 — Yaw setpoints evaluate to the piecewise-linear curve they encode.

Model: `Sb/Model/Yaw.lean`.  Spec: `Sb/Spec/Yaw.lean`.  Exact arithmetic (`secExact`).
-/
import Sb.Proofs.YawSpec
import Sb.Proofs.Parsing
import Sb.Properties.C01

namespace Sb.C10
open Sb Sb.Traj Sb.Yaw Sb.Spec Sb.Proofs

theorem constants : Gen.yawSizeOfDelta = 4 := rfl

/-- **Header.** auto-yaw flag, offset and number of setpoints are exactly those stored -/
theorem header_fields_exact (buf : Bytes) (c : Ctrl) (h : Yaw.init buf = .ok c) :
    ∃ ys, decodeYaw buf = some ys ∧ c.buf = buf ∧ c.autoYaw = ys.autoYaw ∧ c.yawOffsetDdeg = ys.offsetDdeg ∧
      c.headerLength = 3 ∧ c.numDeltas = (buf.length - 3) / 4 := by
  unfold Yaw.init at h
  split at h
  · cases h
  · rename_i hlen
    rcases buf with _ | ⟨f, _ | ⟨o0, _ | ⟨o1, rest⟩⟩⟩ <;> try (simp [Yaw.headerSize] at hlen; done)
    have hf : rd (f :: o0 :: o1 :: rest) 0 = .ok f.toNat := by simp [rd]
    rw [hf] at h
    simp only [bind, Except.bind] at h
    rw [parseI16_of_drop _ 1 o0 o1 rest rfl] at h
    simp only [pure, Except.pure] at h
    injection h with h
    subst h
    refine ⟨_, rfl, rfl, ?_, rfl, rfl, rfl⟩
    simp only [bne_iff_ne, ne_eq]
    have h1 : f.toNat &&& 1 = f.toNat % 2 := Nat.and_one_is_mod _
    rw [h1]
    by_cases hp : f.toNat % 2 = 1
    · simp [hp]
    · have : f.toNat % 2 = 0 := by omega
      simp [this]

theorem numDeltas_eq (rest : Bytes) : (decodeDeltas rest).length = rest.length / 4 := by
  induction hn : rest.length using Nat.strongRecOn generalizing rest with
  | _ n ih =>
    rcases rest with _ | ⟨a, _ | ⟨b, _ | ⟨c, _ | ⟨d, r⟩⟩⟩⟩
    · simp [decodeDeltas] at hn ⊢; omega
    · simp [decodeDeltas] at hn ⊢; omega
    · simp [decodeDeltas] at hn ⊢; omega
    · simp [decodeDeltas] at hn ⊢; omega
    · simp only [decodeDeltas, List.length_cons] at hn ⊢
      rw [ih r.length (by omega) r rfl]; omega

/-- **Yaw and yaw rate.** For every block whose setpoints last ≥ 1 ms (total below 2³² ms, accumulated
yaw within `int32_t`) and every non-NaN clamped time: the yaw is offset + completed changes + elapsed
fraction of the change in progress, in degrees; the rate is that change over its duration; after the
last setpoint the final yaw is held with zero rate. -/
theorem yaw_eq_spec (buf : Bytes) (c : Ctrl) (ys : YawSpec) (hinit : Yaw.init buf = .ok c)
    (hdec : decodeYaw buf = some ys)
    (hdur : ∀ dc, dc ∈ ys.deltas → 1 ≤ dc.1) (hwrap : yawTotalMs ys.deltas < 4294967296)
    (hrange : ys.offsetDdeg.natAbs + yawAbsSum ys.deltas ≤ 2147483647)
    (t : QTime) (ht : t.valid) :
    ∃ p0 p', Yaw.rewind secExact c = .ok p0 ∧ Yaw.seek secExact p0 t = .ok (p', Yaw.relT p'.cur t) ∧
      yawVal p'.cur t = yawAtSpecQ ys.deltas ys.offsetDdeg 0 t ∧
      (∀ q, t = .fin q → rateVal p'.cur = some (rateAtSpec ys.deltas 0 q)) := by
  obtain ⟨ys', hd', hbuf, _, hoff, hhl, _⟩ := header_fields_exact buf c hinit
  rw [hdec] at hd'
  injection hd' with hd'
  subst hd'
  rcases buf with _ | ⟨f, _ | ⟨o0, _ | ⟨o1, rest⟩⟩⟩ <;> try (simp [decodeYaw] at hdec; done)
  simp only [decodeYaw] at hdec
  injection hdec with hdec
  subst hdec
  simp only at hdur hwrap hrange hoff ⊢
  have hg := Sb.C01.gtQ_zero t ht
  obtain ⟨s0, sp, hb, hs, hv, hr⟩ := yaw_seek_spec c t ht rest.length rest 3 0 (i16le o0 o1) (Yaw.seekFuel c)
    (by rw [hbuf]; rfl) (by rw [hbuf]; simp) (Nat.le_refl _) hdur (by simpa using hwrap) hrange hg
    (by rw [numDeltas_eq]; unfold Yaw.seekFuel; rw [hbuf]; simp; omega)
  refine ⟨⟨c, s0⟩, ⟨c, sp⟩, ?_, ?_, hv, hr⟩
  · simp only [Yaw.rewind, hhl, hoff, hb, bind, Except.bind, pure, Except.pure]
  · simp only [Yaw.seek, hs, bind, Except.bind, pure, Except.pure]

/-- what the two query functions return, in terms of the setpoint the seek lands on -/
theorem yawAt_eq (sec : Nat → Rat) (p p' : Yaw.Player) (t : QTime) (r : Rat)
    (h : Yaw.seek sec p t = .ok (p', r)) (hr : r = Yaw.relT p'.cur t) :
    Yaw.yawAt sec p t = .ok (p', yawVal p'.cur t) := by
  simp only [Yaw.yawAt, h, bind, Except.bind, pure, Except.pure, yawVal, hr]

theorem yawRateAt_eq (sec : Nat → Rat) (p p' : Yaw.Player) (t : QTime) (r : Rat)
    (h : Yaw.seek sec p t = .ok (p', r)) :
    Yaw.yawRateAt sec p t = .ok (p', rateVal p'.cur) := by
  simp only [Yaw.yawRateAt, h, bind, Except.bind, pure, Except.pure, rateVal]
  rfl

/-- before time zero the query is answered as at time zero (initial offset applies) -/
theorem before_zero (q : Rat) (hq : q ≤ 0) : QTime.ofF32 (.fin q) = .fin 0 := by simp [QTime.ofF32, hq]

/-- at time 0 the yaw is the initial offset -/
theorem yaw_at_zero (deltas : List (Nat × Int)) (y : Int) (hdur : ∀ dc, dc ∈ deltas → 1 ≤ dc.1) :
    yawAtSpec deltas y 0 0 = (y : Rat) / 10 := by
  cases deltas with
  | nil => rfl
  | cons dc rest =>
    obtain ⟨d, c⟩ := dc
    have hd : (0 : Rat) ≤ ((0 + d : Nat) : Rat) / 1000 := div_nonneg (by exact_mod_cast Nat.zero_le _) (by norm_num)
    simp only [yawAtSpec]
    rw [if_pos hd]
    simp

/-- after the last setpoint the final yaw (offset plus all changes) is held, with zero rate -/
theorem after_end_hold (deltas : List (Nat × Int)) (y : Int) (T : Nat) (q : Rat)
    (hq : ((T + yawTotalMs deltas : Nat) : Rat) / 1000 < q) :
    yawAtSpec deltas y T q = (yawEnd deltas y : Rat) / 10 ∧ rateAtSpec deltas T q = 0 := by
  induction deltas generalizing y T with
  | nil => simp [yawAtSpec, rateAtSpec, yawEnd]
  | cons dc rest ih =>
    obtain ⟨d, c⟩ := dc
    simp only [yawTotalMs, List.map_cons, List.sum_cons] at hq
    have hlt : ¬ (q ≤ ((T + d : Nat) : Rat) / 1000) := by
      rw [not_le]
      have : ((T + d : Nat) : Rat) / 1000 ≤ ((T + (d + (rest.map (·.1)).sum) : Nat) : Rat) / 1000 := by
        apply div_le_div_of_nonneg_right _ (by norm_num)
        exact_mod_cast (by omega : T + d ≤ T + (d + (rest.map (·.1)).sum))
      linarith
    simp only [yawAtSpec, rateAtSpec]
    rw [if_neg hlt, if_neg hlt]
    have := ih (y + c) (T + d) (by simp only [yawTotalMs]; rw [Nat.add_assoc]; exact hq)
    simpa [yawEnd] using this

/-! ### non-vacuity -/
example : decodeYaw [1, 0x84, 0x03, 0xe8, 0x03, 0x2c, 0x01] =
    some { autoYaw := true, offsetDdeg := 900, deltas := [(1000, 300)] } := by decide

end Sb.C10
