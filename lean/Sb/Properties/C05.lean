/-
C05 — Checksummed files reject every detectable corruption.

Model: `Sb/Model/Crc.lean` (table loop, chunked file loop), `Sb/Model/Container.lean` (init).
Spec : `Sb/Spec/Crc.lean` (bit-serial reflected CRC-32, poly 0x04C11DB7, init 0, no final xor).
-/
import Sb.Proofs.CrcLinear
import Sb.Proofs.CrcWindow
import Sb.Proofs.CrcTwoBits
import Sb.Model.Container

namespace Sb.C05
open Sb Sb.Spec Sb.Proofs Sb.Container

/-! ### side-conditions on generated constants -/

/-- the code still zeroes exactly bytes 6..9 and only when at least 10 bytes were read -/
theorem crc_field_position : Gen.crcZeroIdx = [6, 7, 8, 9] ∧ Gen.crcZeroMinRead = 10 := by decide

/-- the read chunk is large enough to contain the whole header -/
theorem chunk_covers_header : 10 ≤ Gen.crcChunk := by decide

/-- the update expression of `sb_ap_crc32_update` is the one that was modelled -/
theorem update_expr_shape : Gen.crcUpdateExpr = "crc32_tab[(crc^buf[i])&0xff]^(crc>>8)" := by decide

/-- the polynomial used is the bit reflection of 0x04C11DB7 -/
theorem poly_is_reflected : poly = polyNormal.reverse := by decide +kernel

/-! ### the routine computes AP-CRC32 -/

/-- every one of the 256 table entries extracted from the source is the 8-fold bit step -/
theorem table_correct : Crc.tab = (List.range 256).map (fun i => step8 (BitVec.ofNat 32 i)) :=
  Proofs.table_correct

/-- `sb_ap_crc32_update` = the bit-serial register, for every start value and byte string -/
theorem update_eq_bitserial (c : BitVec 32) (bs : Bytes) : Crc.update c bs = crc c bs :=
  update_eq_spec c bs

/-- the value is the same however the data is split across successive calls -/
theorem update_split (c : BitVec 32) (xs ys : Bytes) :
    Crc.update (Crc.update c xs) ys = Crc.update c (xs ++ ys) :=
  update_append c xs ys

theorem update_splits (c : BitVec 32) (pieces : List Bytes) :
    pieces.foldl Crc.update c = Crc.update c pieces.flatten := by
  induction pieces generalizing c with
  | nil => rfl
  | cons p ps ih => simp only [List.foldl_cons, List.flatten_cons, ih, update_split]

/-- the parser's chunked loop = AP-CRC32 of the whole file with the field zeroed, every length -/
theorem chunked_eq_whole (file : Bytes) : Crc.fileCrc file = Spec.fileCrc file :=
  fileCrc_eq_spec file chunk_covers_header

/-! ### acceptance rule -/

theorem rewind_not_corrupted (p : Parser) : p.rewind ≠ .error .ecorrupted := by
  unfold Parser.rewind Parser.seek
  split
  · simp [bind, Except.bind]
  · simp only [bind, Except.bind]
    unfold Parser.readNextBlockHeader
    simp only
    split
    · simp
    · split <;> simp

/-- A version-2 file with the checksum feature is reported as corrupted exactly when the stored
value differs from the AP-CRC32 of the file with the field zeroed — on both loading routes. -/
theorem accept_rule (mem : Bool) (feat c0 c1 c2 c3 : UInt8) (rest : Bytes)
    (hf : feat.toNat &&& Gen.SB_BINARY_FEATURE_CRC32 ≠ 0) :
    (init mem ([0x73, 0x6b, 0x79, 0x62, 2, feat, c0, c1, c2, c3] ++ rest) = .error .ecorrupted ↔
      le32 [c0, c1, c2, c3] ≠ Spec.fileCrc ([0x73, 0x6b, 0x79, 0x62, 2, feat, c0, c1, c2, c3] ++ rest)) := by
  unfold init initCommon
  simp [Parser.read, magicBytes, Gen.magic, Gen.versions, hf]
  rw [chunked_eq_whole]
  constructor
  · intro h ha
    exact rewind_not_corrupted _ (h ha)
  · intro hna ha
    exact absurd ha hna

theorem le32_injective (c0 c1 c2 c3 d0 d1 d2 d3 : UInt8)
    (h : le32 [c0, c1, c2, c3] = le32 [d0, d1, d2, d3]) : [c0, c1, c2, c3] = [d0, d1, d2, d3] := by
  unfold le32 at h
  have h' := congrArg BitVec.toNat h
  simp only [BitVec.toNat_ofNat] at h'
  have := c0.toNat_lt; have := c1.toNat_lt; have := c2.toNat_lt; have := c3.toNat_lt
  have := d0.toNat_lt; have := d1.toNat_lt; have := d2.toNat_lt; have := d3.toNat_lt
  have e0 : c0.toNat = d0.toNat := by omega
  have e1 : c1.toNat = d1.toNat := by omega
  have e2 : c2.toNat = d2.toNat := by omega
  have e3 : c3.toNat = d3.toNat := by omega
  rw [UInt8.toNat_inj.mp e0, UInt8.toNat_inj.mp e1, UInt8.toNat_inj.mp e2, UInt8.toNat_inj.mp e3]

/-- any alteration confined to the checksum field of an accepted file is reported as corrupted -/
theorem detect_in_field (mem : Bool) (feat c0 c1 c2 c3 d0 d1 d2 d3 : UInt8) (rest : Bytes)
    (hf : feat.toNat &&& Gen.SB_BINARY_FEATURE_CRC32 ≠ 0)
    (hacc : init mem ([0x73, 0x6b, 0x79, 0x62, 2, feat, c0, c1, c2, c3] ++ rest) ≠ .error .ecorrupted)
    (hne : [c0, c1, c2, c3] ≠ [d0, d1, d2, d3]) :
    init mem ([0x73, 0x6b, 0x79, 0x62, 2, feat, d0, d1, d2, d3] ++ rest) = .error .ecorrupted := by
  rw [accept_rule mem feat d0 d1 d2 d3 rest hf]
  rw [Ne, accept_rule mem feat c0 c1 c2 c3 rest hf, Ne, Classical.not_not] at hacc
  have hz : Spec.fileCrc ([0x73, 0x6b, 0x79, 0x62, 2, feat, d0, d1, d2, d3] ++ rest)
      = Spec.fileCrc ([0x73, 0x6b, 0x79, 0x62, 2, feat, c0, c1, c2, c3] ++ rest) := by
    unfold Spec.fileCrc zeroCrcField
    simp
  rw [hz, ← hacc]
  intro h
  exact hne (le32_injective _ _ _ _ _ _ _ _ h.symm)

/-! ### linearity: the checksum of a corrupted file differs by the checksum of the error pattern -/

theorem crc_of_corrupted (m e : Bytes) (h : m.length = e.length) :
    crc 0 (xorBytes m e) = crc 0 m ^^^ crc 0 e := by
  have := crc_linear m e h 0 0
  simpa using this

/-- **Any alteration confined to (at most) four consecutive bytes lying entirely after the checksum field of an
accepted file is reported as corrupted**, on both loading routes, for every file length and every position of the
window (`pre` is everything between the field and the window) -/
theorem detect_window_after_field (mem : Bool) (feat c0 c1 c2 c3 : UInt8) (pre w w' post : Bytes)
    (hf : feat.toNat &&& Gen.SB_BINARY_FEATURE_CRC32 ≠ 0)
    (hlen : w.length ≤ 4) (hsame : w'.length = w.length) (hne : w ≠ w')
    (hacc : init mem ([0x73, 0x6b, 0x79, 0x62, 2, feat, c0, c1, c2, c3] ++ (pre ++ w ++ post)) ≠ .error .ecorrupted) :
    init mem ([0x73, 0x6b, 0x79, 0x62, 2, feat, c0, c1, c2, c3] ++ (pre ++ w' ++ post)) = .error .ecorrupted := by
  rw [accept_rule mem feat c0 c1 c2 c3 _ hf]
  rw [Ne, accept_rule mem feat c0 c1 c2 c3 _ hf, Ne, Classical.not_not] at hacc
  rw [hacc]
  have h1 : Spec.fileCrc ([0x73, 0x6b, 0x79, 0x62, 2, feat, c0, c1, c2, c3] ++ (pre ++ w ++ post))
      = Spec.crc 0 (([0x73, 0x6b, 0x79, 0x62, 2, feat, 0, 0, 0, 0] ++ pre) ++ w ++ post) := by
    unfold Spec.fileCrc zeroCrcField
    simp
  have h2 : Spec.fileCrc ([0x73, 0x6b, 0x79, 0x62, 2, feat, c0, c1, c2, c3] ++ (pre ++ w' ++ post))
      = Spec.crc 0 (([0x73, 0x6b, 0x79, 0x62, 2, feat, 0, 0, 0, 0] ++ pre) ++ w' ++ post) := by
    unfold Spec.fileCrc zeroCrcField
    simp
  rw [h1, h2]
  exact crc_window_changes 0 _ w w' post hlen hsame hne

/-- in particular every single-bit flip and every two-bit flip within four consecutive bytes after the field is
detected: they are alterations of a window of at most four bytes -/
theorem detect_byte_after_field (mem : Bool) (feat c0 c1 c2 c3 : UInt8) (pre post : Bytes) (b b' : UInt8)
    (hf : feat.toNat &&& Gen.SB_BINARY_FEATURE_CRC32 ≠ 0) (hne : b ≠ b')
    (hacc : init mem ([0x73, 0x6b, 0x79, 0x62, 2, feat, c0, c1, c2, c3] ++ (pre ++ [b] ++ post)) ≠ .error .ecorrupted) :
    init mem ([0x73, 0x6b, 0x79, 0x62, 2, feat, c0, c1, c2, c3] ++ (pre ++ [b'] ++ post)) = .error .ecorrupted :=
  detect_window_after_field mem feat c0 c1 c2 c3 pre [b] [b'] post hf (by simp) rfl (by simpa using hne) hacc

theorem xorBytes_zeros (l : Bytes) : xorBytes l (zeros l.length) = l := by
  induction l with
  | nil => rfl
  | cons a t ih =>
    unfold xorBytes zeros at *
    simp only [List.length_cons, List.replicate_succ, List.zipWith_cons_cons, List.cons.injEq]
    exact ⟨by simp, ih⟩

theorem xorBytes_append (l1 l2 e1 e2 : Bytes) (h : l1.length = e1.length) :
    xorBytes (l1 ++ l2) (e1 ++ e2) = xorBytes l1 e1 ++ xorBytes l2 e2 := by
  unfold xorBytes
  exact List.zipWith_append h

/-- the order of x modulo the generator polynomial is 2^32 - 1 (kernel computation, `Sb/Proofs/CrcPeriod.lean`) -/
theorem generator_order (d : Nat) (hd0 : 0 < d) (hd : d < 4294967295) : step1^[d] e0 ≠ e0 :=
  no_small_period d hd0 hd

/-- **Two flipped bits in different bytes after the checksum field of an accepted file are reported as corrupted**,
on both loading routes, whatever lies before, between (fewer than 2^28 bytes) and after them.  (Two bits in the same
byte or within four consecutive bytes: `detect_window_after_field`; inside the field: `detect_in_field`.) -/
theorem detect_two_bits_after_field (mem : Bool) (feat c0 c1 c2 c3 : UInt8) (pre mid post : Bytes) (x1 x2 : UInt8)
    (a1 a2 : Fin 8) (hf : feat.toNat &&& Gen.SB_BINARY_FEATURE_CRC32 ≠ 0) (hmid : mid.length < 2 ^ 28)
    (hacc : init mem ([0x73, 0x6b, 0x79, 0x62, 2, feat, c0, c1, c2, c3] ++ (pre ++ [x1] ++ mid ++ [x2] ++ post))
      ≠ .error .ecorrupted) :
    init mem ([0x73, 0x6b, 0x79, 0x62, 2, feat, c0, c1, c2, c3] ++
      (pre ++ [x1 ^^^ UInt8.ofNat (2 ^ a1.val)] ++ mid ++ [x2 ^^^ UInt8.ofNat (2 ^ a2.val)] ++ post)) = .error .ecorrupted := by
  rw [accept_rule mem feat c0 c1 c2 c3 _ hf]
  rw [Ne, accept_rule mem feat c0 c1 c2 c3 _ hf, Ne, Classical.not_not] at hacc
  rw [hacc]
  -- both files with the field zeroed
  have h1 : Spec.fileCrc ([0x73, 0x6b, 0x79, 0x62, 2, feat, c0, c1, c2, c3] ++ (pre ++ [x1] ++ mid ++ [x2] ++ post))
      = Spec.crc 0 (([0x73, 0x6b, 0x79, 0x62, 2, feat, 0, 0, 0, 0] ++ pre) ++ [x1] ++ mid ++ [x2] ++ post) := by
    unfold Spec.fileCrc zeroCrcField
    simp
  have h2 : Spec.fileCrc ([0x73, 0x6b, 0x79, 0x62, 2, feat, c0, c1, c2, c3] ++
        (pre ++ [x1 ^^^ UInt8.ofNat (2 ^ a1.val)] ++ mid ++ [x2 ^^^ UInt8.ofNat (2 ^ a2.val)] ++ post))
      = Spec.crc 0 (([0x73, 0x6b, 0x79, 0x62, 2, feat, 0, 0, 0, 0] ++ pre) ++ [x1 ^^^ UInt8.ofNat (2 ^ a1.val)] ++ mid
          ++ [x2 ^^^ UInt8.ofNat (2 ^ a2.val)] ++ post) := by
    unfold Spec.fileCrc zeroCrcField
    simp
  rw [h1, h2]
  generalize ([0x73, 0x6b, 0x79, 0x62, 2, feat, 0, 0, 0, 0] ++ pre : Bytes) = A
  -- the altered file is the original xor the two-bit pattern
  have hx : A ++ [x1 ^^^ UInt8.ofNat (2 ^ a1.val)] ++ mid ++ [x2 ^^^ UInt8.ofNat (2 ^ a2.val)] ++ post
      = xorBytes (A ++ [x1] ++ mid ++ [x2] ++ post)
          (zeros A.length ++ [UInt8.ofNat (2 ^ a1.val)] ++ zeros mid.length ++ [UInt8.ofNat (2 ^ a2.val)] ++ zeros post.length) := by
    rw [xorBytes_append _ _ _ _ (by simp [zeros]), xorBytes_append _ _ _ _ (by simp [zeros]),
      xorBytes_append _ _ _ _ (by simp [zeros]), xorBytes_append _ _ _ _ (by simp [zeros]),
      xorBytes_zeros, xorBytes_zeros, xorBytes_zeros]
    rfl
  rw [hx, crc_of_corrupted _ _ (by simp [zeros])]
  intro h
  have hz : crc 0 (zeros A.length ++ [UInt8.ofNat (2 ^ a1.val)] ++ zeros mid.length ++ [UInt8.ofNat (2 ^ a2.val)]
      ++ zeros post.length) = 0 := by
    have key : ∀ (x e : BitVec 32), x ^^^ e = x → e = 0 := by
      intro x e hxe
      have h3 := congrArg (x ^^^ ·) hxe
      simp only [← BitVec.xor_assoc, BitVec.xor_self, BitVec.zero_xor] at h3
      exact h3
    exact key _ _ h.symm
  exact crc_two_bits_ne A.length mid.length post.length a1 a2 hmid hz

/-- **One flipped bit of the stored checksum word together with one flipped bit of the data** (fewer than 2^28 bytes
after it) is reported as corrupted.  The hypothesis on the field says that the stored 32-bit word differs in exactly
bit `k`. -/
theorem detect_field_bit_and_data_bit (mem : Bool) (feat c0 c1 c2 c3 d0 d1 d2 d3 : UInt8) (pre post : Bytes) (x : UInt8)
    (a : Fin 8) (k : Fin 32) (hf : feat.toNat &&& Gen.SB_BINARY_FEATURE_CRC32 ≠ 0) (hpost : post.length < 2 ^ 28)
    (hflip : le32 [d0, d1, d2, d3] = le32 [c0, c1, c2, c3] ^^^ basis k.val)
    (hacc : init mem ([0x73, 0x6b, 0x79, 0x62, 2, feat, c0, c1, c2, c3] ++ (pre ++ [x] ++ post)) ≠ .error .ecorrupted) :
    init mem ([0x73, 0x6b, 0x79, 0x62, 2, feat, d0, d1, d2, d3] ++ (pre ++ [x ^^^ UInt8.ofNat (2 ^ a.val)] ++ post))
      = .error .ecorrupted := by
  rw [accept_rule mem feat d0 d1 d2 d3 _ hf]
  rw [Ne, accept_rule mem feat c0 c1 c2 c3 _ hf, Ne, Classical.not_not] at hacc
  rw [hflip, hacc]
  have h1 : Spec.fileCrc ([0x73, 0x6b, 0x79, 0x62, 2, feat, c0, c1, c2, c3] ++ (pre ++ [x] ++ post))
      = Spec.crc 0 (([0x73, 0x6b, 0x79, 0x62, 2, feat, 0, 0, 0, 0] ++ pre) ++ [x] ++ post) := by
    unfold Spec.fileCrc zeroCrcField
    simp
  have h2 : Spec.fileCrc ([0x73, 0x6b, 0x79, 0x62, 2, feat, d0, d1, d2, d3] ++ (pre ++ [x ^^^ UInt8.ofNat (2 ^ a.val)] ++ post))
      = Spec.crc 0 (([0x73, 0x6b, 0x79, 0x62, 2, feat, 0, 0, 0, 0] ++ pre) ++ [x ^^^ UInt8.ofNat (2 ^ a.val)] ++ post) := by
    unfold Spec.fileCrc zeroCrcField
    simp
  rw [h1, h2]
  generalize ([0x73, 0x6b, 0x79, 0x62, 2, feat, 0, 0, 0, 0] ++ pre : Bytes) = A
  have hx : A ++ [x ^^^ UInt8.ofNat (2 ^ a.val)] ++ post
      = xorBytes (A ++ [x] ++ post) (zeros A.length ++ [UInt8.ofNat (2 ^ a.val)] ++ zeros post.length) := by
    rw [xorBytes_append _ _ _ _ (by simp [zeros]), xorBytes_append _ _ _ _ (by simp [zeros]), xorBytes_zeros, xorBytes_zeros]
    rfl
  rw [hx, crc_of_corrupted _ _ (by simp [zeros])]
  intro h
  -- cancel the common part: the single-bit word would equal the checksum of the single-bit data pattern
  have key : ∀ (u v w : BitVec 32), u ^^^ v = u ^^^ w → v = w := by
    intro u v w huv
    have h3 := congrArg (u ^^^ ·) huv
    simp only [← BitVec.xor_assoc, BitVec.xor_self, BitVec.zero_xor] at h3
    exact h3
  have := key _ _ _ h
  exact crc_one_bit_ne_basis A.length post.length a k hpost this.symm

/-! ### non-vacuity -/

/-- a concrete checksummed file (header + one comment block `03 01 00 41`) whose stored value
0xcf4d175e matches: it is not reported as corrupted, and flipping a bit of the field is. -/
example : init true ([0x73, 0x6b, 0x79, 0x62, 2, 1, 94, 23, 77, 207] ++ [3, 1, 0, 0x41]) ≠ .error .ecorrupted := by
  rw [Ne, accept_rule true 1 94 23 77 207 [3, 1, 0, 0x41] (by decide), Ne, Classical.not_not]
  decide +kernel

example : init false ([0x73, 0x6b, 0x79, 0x62, 2, 1, 95, 23, 77, 207] ++ [3, 1, 0, 0x41]) = .error .ecorrupted := by
  apply detect_in_field false 1 94 23 77 207 95 23 77 207 [3, 1, 0, 0x41] (by decide)
  · rw [Ne, accept_rule false 1 94 23 77 207 [3, 1, 0, 0x41] (by decide), Ne, Classical.not_not]
    decide +kernel
  · decide

/-- the accepted example file with its last byte altered is reported as corrupted (window theorem instantiated) -/
example : init true ([0x73, 0x6b, 0x79, 0x62, 2, 1, 94, 23, 77, 207] ++ ([3, 1, 0] ++ [0x42] ++ [])) = .error .ecorrupted := by
  apply detect_byte_after_field true 1 94 23 77 207 [3, 1, 0] [] 0x41 0x42 (by decide) (by decide)
  rw [Ne, accept_rule true 1 94 23 77 207 _ (by decide), Ne, Classical.not_not]
  decide +kernel

end Sb.C05
