/-
C20 — the float clauses that follow from the rounding library (`Sb/Proofs/RoundF32.lean`):
colour interpolation returns the first colour at ratio 0, the second at ratio 1 and stays between them channel-wise
for every ratio in [0,1]; the reference-colour RGBW conversion never exceeds the original channels.
All statements are about the bit-exact model of the float code (`Sb.Utils.lerpChanF`, `Sb.Utils.rgbwReference`).
-/
import Sb.Proofs.RoundF32
import Sb.Properties.C20

namespace Sb.C20
open Sb Sb.Utils Sb.Proofs

theorem rf_nat (n : Nat) (h : n ≤ 16777216) : rf (n : ℚ) = (n : ℚ) := roundF32_natCast n h
theorem rf_int (n : Int) (h : n.natAbs ≤ 16777216) : rf (n : ℚ) = (n : ℚ) := roundF32_intCast n h
theorem rf_mono {x y : Rat} (h : x ≤ y) : rf x ≤ rf y := roundF32_mono x y h

theorem truncNat_natCast (n : Nat) : truncNat (n : ℚ) = n := by
  unfold truncNat
  have : ¬ ((n : ℚ) < 0) := not_lt.mpr (by exact_mod_cast Nat.zero_le n)
  rw [if_neg this]
  have : ((n : ℚ)).floor = (n : Int) := by
    have := Rat.floor_intCast (n : Int)
    simpa using this
  rw [this]; simp

theorem truncNat_mono {x y : Rat} (h : x ≤ y) : truncNat x ≤ truncNat y := by
  unfold truncNat
  by_cases hx : x < 0
  · rw [if_pos hx]; exact Nat.zero_le _
  · have hy : ¬ y < 0 := by intro hh; apply hx; linarith
    rw [if_neg hx, if_neg hy]
    exact Int.toNat_le_toNat (Rat.floor_monotone h)

/-- ratio 0 gives the first colour -/
theorem lerp_zero (f s : Nat) (hf : f ≤ 255) : lerpChanF f s 0 = f := by
  unfold lerpChanF
  simp only [mul_zero]
  have h0 : rf (0 : ℚ) = 0 := roundF32_zero
  rw [h0, add_zero, rf_nat f (by omega)]
  have h1 : ¬ ((f : ℚ) < 0) := not_lt.mpr (by exact_mod_cast Nat.zero_le f)
  have h2 : ¬ ((f : ℚ) > 255) := by
    have : (f : ℚ) ≤ 255 := by exact_mod_cast hf
    intro hh; linarith
  rw [if_neg h1, if_neg h2, truncNat_natCast]

/-- ratio 1 gives the second colour -/
theorem lerp_one (f s : Nat) (hf : f ≤ 255) (hs : s ≤ 255) : lerpChanF f s 1 = s := by
  unfold lerpChanF
  simp only [mul_one]
  have hd : (((s : Int) - (f : Int) : Int)).natAbs ≤ 16777216 := by omega
  rw [rf_int _ hd]
  have hsum : (f : ℚ) + (((s : Int) - (f : Int) : Int) : ℚ) = (s : ℚ) := by push_cast; ring
  rw [hsum, rf_nat s (by omega)]
  have h1 : ¬ ((s : ℚ) < 0) := not_lt.mpr (by exact_mod_cast Nat.zero_le s)
  have h2 : ¬ ((s : ℚ) > 255) := by
    have : (s : ℚ) ≤ 255 := by exact_mod_cast hs
    intro hh; linarith
  rw [if_neg h1, if_neg h2, truncNat_natCast]

/-- **between-ness**: for every ratio in [0,1] the interpolated channel lies between the two channel values -/
theorem lerp_between (f s : Nat) (ratio : Rat) (hf : f ≤ 255) (hs : s ≤ 255) (h0 : 0 ≤ ratio) (h1 : ratio ≤ 1) :
    min f s ≤ lerpChanF f s ratio ∧ lerpChanF f s ratio ≤ max f s := by
  unfold lerpChanF
  have hd : (((s : Int) - (f : Int) : Int)).natAbs ≤ 16777216 := by omega
  have hfq : (0 : ℚ) ≤ (f : ℚ) := by exact_mod_cast Nat.zero_le f
  have hsq : (0 : ℚ) ≤ (s : ℚ) := by exact_mod_cast Nat.zero_le s
  have hf255 : (f : ℚ) ≤ 255 := by exact_mod_cast hf
  have hs255 : (s : ℚ) ≤ 255 := by exact_mod_cast hs
  set d : ℚ := (((s : Int) - (f : Int) : Int) : ℚ) with hdq
  have hdv : d = (s : ℚ) - (f : ℚ) := by rw [hdq]; push_cast; ring
  -- v lies between f and s
  have key : (min f s : Nat) ≤ rf ((f : ℚ) + rf (d * ratio)) ∧ rf ((f : ℚ) + rf (d * ratio)) ≤ (max f s : Nat) := by
    rcases le_total f s with hle | hle
    · have hfs : (f : ℚ) ≤ (s : ℚ) := by exact_mod_cast hle
      have hdn : 0 ≤ d := by rw [hdv]; linarith
      have a1 : 0 ≤ rf (d * ratio) := by
        have := rf_mono (mul_nonneg hdn h0)
        rwa [show rf (0 : ℚ) = 0 from roundF32_zero] at this
      have a2 : rf (d * ratio) ≤ d := by
        have := rf_mono (show d * ratio ≤ d by nlinarith)
        rwa [show rf d = d from rf_int _ hd] at this
      have b1 : (f : ℚ) ≤ rf ((f : ℚ) + rf (d * ratio)) := by
        have := rf_mono (show (f : ℚ) ≤ (f : ℚ) + rf (d * ratio) by linarith)
        rwa [rf_nat f (by omega)] at this
      have b2 : rf ((f : ℚ) + rf (d * ratio)) ≤ (s : ℚ) := by
        have := rf_mono (show (f : ℚ) + rf (d * ratio) ≤ (s : ℚ) by linarith [a2, hdv])
        rwa [rf_nat s (by omega)] at this
      rw [Nat.min_eq_left hle, Nat.max_eq_right hle]
      exact ⟨b1, b2⟩
    · have hsf : (s : ℚ) ≤ (f : ℚ) := by exact_mod_cast hle
      have hdn : d ≤ 0 := by rw [hdv]; linarith
      have a1 : rf (d * ratio) ≤ 0 := by
        have := rf_mono (show d * ratio ≤ 0 by nlinarith)
        rwa [show rf (0 : ℚ) = 0 from roundF32_zero] at this
      have a2 : d ≤ rf (d * ratio) := by
        have := rf_mono (show d ≤ d * ratio by nlinarith)
        rwa [show rf d = d from rf_int _ hd] at this
      have b1 : rf ((f : ℚ) + rf (d * ratio)) ≤ (f : ℚ) := by
        have := rf_mono (show (f : ℚ) + rf (d * ratio) ≤ (f : ℚ) by linarith)
        rwa [rf_nat f (by omega)] at this
      have b2 : (s : ℚ) ≤ rf ((f : ℚ) + rf (d * ratio)) := by
        have := rf_mono (show (s : ℚ) ≤ (f : ℚ) + rf (d * ratio) by linarith [a2, hdv])
        rwa [rf_nat s (by omega)] at this
      rw [Nat.min_eq_right hle, Nat.max_eq_left hle]
      exact ⟨b2, b1⟩
  obtain ⟨k1, k2⟩ := key
  set v := rf ((f : ℚ) + rf (d * ratio)) with hv
  have hmin0 : (0 : ℚ) ≤ ((min f s : Nat) : ℚ) := by exact_mod_cast Nat.zero_le _
  have hmax255 : ((max f s : Nat) : ℚ) ≤ 255 := by
    have : max f s ≤ 255 := by omega
    exact_mod_cast this
  have hv0 : ¬ v < 0 := by intro hh; linarith
  have hv255 : ¬ v > 255 := by intro hh; linarith
  rw [if_neg hv0, if_neg hv255]
  constructor
  · have := truncNat_mono k1
    rwa [truncNat_natCast] at this
  · have := truncNat_mono k2
    rwa [truncNat_natCast] at this

/-- the channel formula of the reference-colour conversion never exceeds the original channel -/
theorem reference_channel_le (c w : Nat) (d : Rat) (hc : c ≤ 255) (hd : 0 ≤ d) :
    (if (c : Rat) > rf ((w : Rat) * d) then truncNat (rf ((c : Rat) - rf ((w : Rat) * d))) else 0) ≤ c := by
  split
  · have hcorr : 0 ≤ rf ((w : Rat) * d) := by
      have := rf_mono (show (0 : ℚ) ≤ (w : ℚ) * d from mul_nonneg (by exact_mod_cast Nat.zero_le w) hd)
      rwa [show rf (0 : ℚ) = 0 from roundF32_zero] at this
    have h1 : rf ((c : Rat) - rf ((w : Rat) * d)) ≤ (c : ℚ) := by
      have := rf_mono (show (c : Rat) - rf ((w : Rat) * d) ≤ (c : ℚ) by linarith)
      rwa [rf_nat c (by omega)] at this
    have := truncNat_mono h1
    rwa [truncNat_natCast] at this
  · exact Nat.zero_le _

/-- **the reference-colour RGBW conversion never exceeds the original channels** (for non-negative divisors, which is
what `refParams` produces) -/
theorem rgbw_reference_le (r g b : Nat) (mul div : Rat × Rat × Rat) (hr : r ≤ 255) (hg : g ≤ 255) (hb : b ≤ 255)
    (h1 : 0 ≤ div.1) (h2 : 0 ≤ div.2.1) (h3 : 0 ≤ div.2.2) :
    (rgbwReference r g b mul div).1 ≤ r ∧ (rgbwReference r g b mul div).2.1 ≤ g ∧ (rgbwReference r g b mul div).2.2.1 ≤ b := by
  unfold rgbwReference
  simp only
  exact ⟨reference_channel_le r _ _ hr h1, reference_channel_le g _ _ hg h2, reference_channel_le b _ _ hb h3⟩

/-- the divisors produced for a reference colour are non-negative -/
theorem refParams_div_nonneg (rr rg rb : Nat) :
    0 ≤ (refParams rr rg rb).2.1 ∧ 0 ≤ (refParams rr rg rb).2.2.1 ∧ 0 ≤ (refParams rr rg rb).2.2.2 := by
  have hm : ∀ (mx : Rat) (c : Nat), 0 ≤ mx → 0 ≤ (if c ≥ 1 then rf (mx / (c : Rat)) else (255 : Rat)) := by
    intro mx c hmx
    split
    · have := rf_mono (show (0 : ℚ) ≤ mx / (c : Rat) from div_nonneg hmx (by exact_mod_cast Nat.zero_le c))
      rwa [show rf (0 : ℚ) = 0 from roundF32_zero] at this
    · norm_num
  have hinv : ∀ x : Rat, 0 ≤ x → 0 ≤ rf (1 / x) := by
    intro x hx
    have := rf_mono (show (0 : ℚ) ≤ 1 / x from div_nonneg (by norm_num) hx)
    rwa [show rf (0 : ℚ) = 0 from roundF32_zero] at this
  unfold refParams
  simp only
  have hmx : (0 : ℚ) ≤ max 1 (((max rr (max rg rb) : Nat)) : ℚ) := le_trans zero_le_one (le_max_left _ _)
  exact ⟨hinv _ (hm _ rr hmx), hinv _ (hm _ rg hmx), hinv _ (hm _ rb hmx)⟩

/-! ### the conversion object over every history of set-up calls -/

/-- a set-up call on the conversion object; a colour temperature comes with its black-body colour, whatever libm makes it -/
inductive ConvOp where
  | fixed (v : Nat)
  | off
  | subMin
  | reference (r g b : Nat)
  | temperature (t : F32) (bb : Nat × Nat × Nat)

def _root_.Sb.Utils.Conv.step (c : Conv) : ConvOp → Conv
  | .fixed v => c.useFixed v
  | .off => c.turnOff
  | .subMin => c.useMin
  | .reference r g b => c.useReference r g b
  | .temperature t bb => c.useTemperature t bb

/-- what every reachable conversion object satisfies: reference divisors are non-negative -/
def _root_.Sb.Utils.Conv.Good : Conv → Prop
  | .ref _ d _ => 0 ≤ d.1 ∧ 0 ≤ d.2.1 ∧ 0 ≤ d.2.2
  | _ => True

theorem conv_step_good (c : Conv) (op : ConvOp) (h : c.Good) : (c.step op).Good := by
  cases op with
  | fixed v => trivial
  | off => trivial
  | subMin => trivial
  | reference r g b => exact refParams_div_nonneg r g b
  | temperature t bb =>
    show (c.useTemperature t bb).Good
    unfold Conv.useTemperature
    cases c with
    | fixed v => exact refParams_div_nonneg _ _ _
    | subMin => exact refParams_div_nonneg _ _ _
    | ref m d t0 =>
      simp only
      split
      · exact h
      · exact refParams_div_nonneg _ _ _

theorem conv_history_good (ops : List ConvOp) : (ops.foldl Conv.step Conv.zero).Good := by
  have : ∀ c : Conv, c.Good → (ops.foldl Conv.step c).Good := by
    induction ops with
    | nil => intro c h; exact h
    | cons op ops ih => intro c h; exact ih _ (conv_step_good c op h)
  exact this _ trivial

/-- the documented contract of the method in force -/
def ConvContract (c : Conv) (r g b : Nat) : Prop :=
  match c with
  | .fixed v => c.convert r g b = (r, g, b, v)
  | .subMin => (c.convert r g b).1 + (c.convert r g b).2.2.2 = r ∧ (c.convert r g b).2.1 + (c.convert r g b).2.2.2 = g ∧
      (c.convert r g b).2.2.1 + (c.convert r g b).2.2.2 = b ∧ (c.convert r g b).2.2.2 = min r (min g b)
  | .ref _ _ _ => (c.convert r g b).1 ≤ r ∧ (c.convert r g b).2.1 ≤ g ∧ (c.convert r g b).2.2.1 ≤ b

/-- **after any history of set-up calls** (fixed value, off, minimum subtraction, reference colours, colour temperatures
with any black-body colour, remembered temperatures included) the conversion keeps the contract of the method that is
in force: fixed value leaves rgb untouched, minimum subtraction gives rgb+w = original with w the smallest channel,
a reference colour never exceeds the original channels. -/
theorem conv_history_contract (ops : List ConvOp) (r g b : Nat) (hr : r ≤ 255) (hg : g ≤ 255) (hb : b ≤ 255) :
    ConvContract (ops.foldl Conv.step Conv.zero) r g b := by
  have hg' := conv_history_good ops
  generalize ops.foldl Conv.step Conv.zero = c at hg'
  cases c with
  | fixed v => rfl
  | subMin => exact rgbw_min_subtraction r g b
  | ref m d t => exact rgbw_reference_le r g b m d hr hg hb hg'.1 hg'.2.1 hg'.2.2

/-- the last set-up call decides the method: nothing of an earlier fixed value or minimum subtraction survives a reference
colour, and a colour temperature that differs from the remembered one always installs its own colour -/
theorem conv_temperature_fresh (c : Conv) (t : F32) (bb : Nat × Nat × Nat)
    (h : ∀ m d t0, c = .ref m d t0 → floatEq t0 t = false) :
    c.useTemperature t bb = .ref (refParams bb.1 bb.2.1 bb.2.2).1 (refParams bb.1 bb.2.1 bb.2.2).2 t := by
  unfold Conv.useTemperature
  cases c with
  | fixed v => rfl
  | subMin => rfl
  | ref m d t0 =>
    simp only
    rw [h m d t0 rfl]
    rfl

example : (([ConvOp.temperature (.fin 4500) (255, 219, 186), .fixed 7, .temperature (.fin 4500) (255, 219, 186)].foldl
    Conv.step Conv.zero).convert 200 100 50).2.2.2 ≠ 7 := by decide +kernel

end Sb.C20
