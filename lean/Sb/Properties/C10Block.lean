/-
C10 — the yaw theorem without its two arithmetic side conditions: for every yaw block that fits the container's 16-bit
block length (at most 65535 bytes, i.e. at most 16383 setpoints) the millisecond counter cannot wrap (total duration
< 2^32 ms) and the yaw accumulator cannot leave the 32-bit range, so `yaw_eq_spec` holds for every such block whose
setpoints last at least 1 ms.
-/
import Sb.Properties.C10

namespace Sb.C10
open Sb Sb.Traj Sb.Yaw Sb.Spec Sb.Proofs

theorem i16le_abs (b0 b1 : UInt8) : (i16le b0 b1).natAbs ≤ 32768 := by
  unfold i16le toInt16
  have h0 := b0.toNat_lt
  have h1 := b1.toNat_lt
  split <;> omega

theorem decodeDeltas_bounds : ∀ (rest : Bytes) (dc : Nat × Int), dc ∈ decodeDeltas rest → dc.1 ≤ 65535 ∧ dc.2.natAbs ≤ 32768 := by
  intro rest
  induction hn : rest.length using Nat.strongRecOn generalizing rest with
  | _ n ih =>
    intro dc hdc
    rcases rest with _ | ⟨a, _ | ⟨b, _ | ⟨c, _ | ⟨d, r⟩⟩⟩⟩
    · simp [decodeDeltas] at hdc
    · simp [decodeDeltas] at hdc
    · simp [decodeDeltas] at hdc
    · simp [decodeDeltas] at hdc
    · simp only [decodeDeltas, List.mem_cons] at hdc
      rcases hdc with rfl | hdc
      · have ha := a.toNat_lt
        have hb := b.toNat_lt
        exact ⟨by show a.toNat + 256 * b.toNat ≤ 65535; omega, i16le_abs c d⟩
      · exact ih r.length (by subst hn; simp; omega) r rfl dc hdc

theorem sum_le_of_bound (l : List Nat) (B : Nat) (h : ∀ x ∈ l, x ≤ B) : l.sum ≤ l.length * B := by
  induction l with
  | nil => simp
  | cons x xs ih =>
    have h1 := h x (List.mem_cons_self)
    have h2 := ih (fun y hy => h y (List.mem_cons_of_mem _ hy))
    simp only [List.sum_cons, List.length_cons]
    rw [Nat.succ_mul]
    omega

/-- **C10 for every block the container can carry** -/
theorem yaw_eq_spec_of_block (buf : Bytes) (c : Ctrl) (ys : YawSpec) (hinit : Yaw.init buf = .ok c)
    (hdec : decodeYaw buf = some ys) (hlen : buf.length ≤ 65535)
    (hdur : ∀ dc, dc ∈ ys.deltas → 1 ≤ dc.1)
    (t : QTime) (ht : t.valid) :
    ∃ p0 p', Yaw.rewind secExact c = .ok p0 ∧ Yaw.seek secExact p0 t = .ok (p', Yaw.relT p'.cur t) ∧
      yawVal p'.cur t = yawAtSpecQ ys.deltas ys.offsetDdeg 0 t ∧
      (∀ q, t = .fin q → rateVal p'.cur = some (rateAtSpec ys.deltas 0 q)) := by
  rcases buf with _ | ⟨f, _ | ⟨o0, _ | ⟨o1, rest⟩⟩⟩ <;> try (simp [decodeYaw] at hdec; done)
  have hys : ys = { autoYaw := f.toNat % 2 = 1, offsetDdeg := i16le o0 o1, deltas := decodeDeltas rest } := by
    simp only [decodeYaw] at hdec
    injection hdec with hdec
    exact hdec.symm
  have hcount : (decodeDeltas rest).length ≤ 16383 := by
    rw [numDeltas_eq]
    simp only [List.length_cons] at hlen
    omega
  have hb := decodeDeltas_bounds rest
  have h1 : yawTotalMs ys.deltas < 4294967296 := by
    rw [hys]
    unfold yawTotalMs
    have := sum_le_of_bound ((decodeDeltas rest).map (·.1)) 65535 (by
      intro x hx
      obtain ⟨dc, hdc, rfl⟩ := List.mem_map.mp hx
      exact (hb dc hdc).1)
    rw [List.length_map] at this
    have : (decodeDeltas rest).length * 65535 ≤ 16383 * 65535 := Nat.mul_le_mul_right _ hcount
    simp only at *
    omega
  have h2 : ys.offsetDdeg.natAbs + yawAbsSum ys.deltas ≤ 2147483647 := by
    rw [hys]
    unfold yawAbsSum
    have := sum_le_of_bound ((decodeDeltas rest).map (fun dc => dc.2.natAbs)) 32768 (by
      intro x hx
      obtain ⟨dc, hdc, rfl⟩ := List.mem_map.mp hx
      exact (hb dc hdc).2)
    rw [List.length_map] at this
    have h3 : (decodeDeltas rest).length * 32768 ≤ 16383 * 32768 := Nat.mul_le_mul_right _ hcount
    have h4 := i16le_abs o0 o1
    simp only at *
    omega
  exact yaw_eq_spec _ c ys hinit hdec hdur h1 h2 t ht

end Sb.C10
