import Sb.Model.Stats
namespace Sb.C14
end Sb.C14
