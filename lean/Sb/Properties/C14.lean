/-
C14 — Proposed landing time leaves exactly the preferred descent.

Theorems about the model `Sb.Stats` of the statistics pass, for EVERY list of segments:
  * the run tracking of the main loop ends with exactly the longest run of vertical segments at the end of the
    trajectory (`trackRun_eq_verticalSuffix`);
  * argument screening of the proposal function (`propose_screening`);
  * no vertical run at the end → the total duration; a run that descends by no more than the preferred descent →
    the start of the run (`landing_no_run`, `landing_short_run`);
  * otherwise the walk lands in the first segment of the run whose own descent exceeds what is left to descend, at
    the local time the root oracle gives for the altitude "end of the run + preferred descent", or at the default
    when there is no such segment (`walkRun_spec`); with an oracle whose answers lie in [0,1] the result lies inside
    that segment (`walkRun_in_segment`).
The oracle for curved altitude is judged by the correspondence run (DESIGN.md C14).
-/
import Mathlib.Tactic.Ring
import Mathlib.Tactic.Linarith
import Mathlib.Algebra.Order.Field.Rat
import Mathlib.Algebra.Order.Field.Basic
import Mathlib.Tactic.Positivity
import Sb.Model.Stats
import Sb.Proofs.CertSound

namespace Sb.C14
open Sb Sb.Poly Sb.Stats

/-! ### run tracking = longest vertical suffix -/

theorem verticalSuffix_append_vertical (thr : Rat) (segs : List ZSeg) (s : ZSeg) (h : isVertical thr s = true) :
    verticalSuffix thr (segs ++ [s]) = verticalSuffix thr segs ++ [s] := by
  unfold verticalSuffix
  simp [List.reverse_append, List.takeWhile_cons, h]

theorem verticalSuffix_append_other (thr : Rat) (segs : List ZSeg) (s : ZSeg) (h : isVertical thr s = false) :
    verticalSuffix thr (segs ++ [s]) = [] := by
  unfold verticalSuffix
  simp [List.reverse_append, List.takeWhile_cons, h]

/-- the loop's `state_valid` / saved cursor bookkeeping computes the longest run of vertical segments at the end -/
theorem trackRun_eq_verticalSuffix (thr : Rat) (segs : List ZSeg) : trackRun thr segs = verticalSuffix thr segs := by
  induction segs using List.reverseRecOn with
  | nil => rfl
  | append_singleton segs s ih =>
    unfold trackRun at *
    rw [List.foldl_append, ih]
    simp only [List.foldl_cons, List.foldl_nil, trackStep]
    by_cases h : isVertical thr s = true
    · rw [if_pos h, verticalSuffix_append_vertical thr segs s h]
    · have h' : isVertical thr s = false := by simpa using h
      rw [if_neg h, verticalSuffix_append_other thr segs s h']

theorem mem_takeWhile_holds {α : Type} (p : α → Bool) (l : List α) (x : α) (h : x ∈ l.takeWhile p) : p x = true := by
  induction l with
  | nil => simp at h
  | cons a l ih =>
    rw [List.takeWhile_cons] at h
    split at h
    · rename_i ha
      rcases List.mem_cons.mp h with rfl | hm
      · exact ha
      · exact ih hm
    · simp at h

theorem verticalSuffix_all_vertical (thr : Rat) (segs : List ZSeg) : ∀ s ∈ verticalSuffix thr segs, isVertical thr s = true := by
  intro s hs
  unfold verticalSuffix at hs
  rw [List.mem_reverse] at hs
  exact mem_takeWhile_holds _ _ _ hs

theorem verticalSuffix_is_suffix (thr : Rat) (segs : List ZSeg) : verticalSuffix thr segs <:+ segs := by
  unfold verticalSuffix
  have h := List.takeWhile_prefix (isVertical thr) (l := segs.reverse)
  have := List.reverse_suffix.mpr h
  simpa using this

/-- it is the *longest* such suffix: the segment just before it (if any) is not vertical -/
theorem verticalSuffix_maximal (thr : Rat) (pre : List ZSeg) (s : ZSeg) (run : List ZSeg)
    (h : pre ++ s :: run = segs) (hr : verticalSuffix thr segs = run) : isVertical thr s = false := by
  subst h
  unfold verticalSuffix at hr
  simp only [List.reverse_append, List.reverse_cons, List.append_assoc, List.singleton_append] at hr
  by_contra hv
  have hv' : isVertical thr s = true := by simpa using hv
  have hall : ∀ x ∈ run.reverse, isVertical thr x = true := by
    intro x hx
    have : x ∈ verticalSuffix thr (pre ++ s :: run) := by
      unfold verticalSuffix
      simp only [List.reverse_append, List.reverse_cons, List.append_assoc, List.singleton_append]
      rw [hr]; simpa using hx
    exact verticalSuffix_all_vertical thr _ x this
  have hlen := congrArg List.length hr
  rw [List.length_reverse] at hlen
  have : (List.takeWhile (isVertical thr) (run.reverse ++ s :: pre.reverse)).length ≥ run.length + 1 := by
    rw [List.takeWhile_append_of_pos hall]
    simp [List.takeWhile_cons, hv']
  omega

/-! ### screening and the easy cases -/

theorem propose_screening (ρ : Touch) (segs : List ZSeg) :
    (∀ thr, proposeLanding ρ segs .pinf thr = totalSec segs ∧ proposeLanding ρ segs .ninf thr = totalSec segs ∧
            proposeLanding ρ segs .nan thr = totalSec segs) ∧
    (∀ p, proposeLanding ρ segs (.fin p) .pinf = totalSec segs ∧ proposeLanding ρ segs (.fin p) .ninf = totalSec segs ∧
          proposeLanding ρ segs (.fin p) .nan = totalSec segs) ∧
    (∀ p t, p ≤ pow2 (-126) → proposeLanding ρ segs (.fin p) (.fin t) = totalSec segs) ∧
    (∀ p t, ¬ p ≤ pow2 (-126) → t < 0 → proposeLanding ρ segs (.fin p) (.fin t) = landingTime ρ segs p 0) ∧
    (∀ p t, ¬ p ≤ pow2 (-126) → ¬ t < 0 → proposeLanding ρ segs (.fin p) (.fin t) = landingTime ρ segs p t) := by
  refine ⟨?_, ?_, ?_, ?_, ?_⟩
  · intro thr; cases thr <;> simp [proposeLanding]
  · intro p; simp [proposeLanding]
  · intro p t h; simp [proposeLanding, h]
  · intro p t h ht; simp [proposeLanding, h, ht]
  · intro p t h ht; simp [proposeLanding, h, ht]

/-- no vertical descent at the end: the total duration -/
theorem landing_no_run (ρ : Touch) (segs : List ZSeg) (pd thr : Rat) (h : verticalSuffix thr segs = []) :
    landingTime ρ segs pd thr = totalSec segs := by
  unfold landingTime
  rw [trackRun_eq_verticalSuffix, h]

/-- the final run descends by no more than the preferred descent: its start -/
theorem landing_short_run (ρ : Touch) (segs : List ZSeg) (pd thr : Rat) (first : ZSeg) (rest : List ZSeg)
    (h : verticalSuffix thr segs = first :: rest)
    (hd : first.z0 - (((first :: rest).getLast?.map (·.ze)).getD first.z0) ≤ pd) :
    landingTime ρ segs pd thr = first.startSec := by
  unfold landingTime
  rw [trackRun_eq_verticalSuffix, h]
  simp only
  rw [if_neg]
  linarith

/-! ### the walk -/

/-- The walk through the run, as a specification: either every segment is consumed (or one ascends) and the result is
the default or the end of a consumed segment, or there are `pre`, `s`, `post` with the run = pre ++ s :: post, every
segment of `pre` consumed in full (its descent fits into what is left), `s` the first whose descent exceeds what is
left, and the result is the instant in `s` that the oracle gives for the altitude at which exactly the rest has been
descended (the linear estimate when the oracle finds none). -/
theorem walkRun_spec (ρ : Touch) (dflt : Rat) (run : List ZSeg) (alt td : Rat) (htd : 0 ≤ td) :
    walkRun ρ dflt run alt td = dflt ∨ (∃ s ∈ run, walkRun ρ dflt run alt td = s.endSec) ∨
    ∃ pre s post alt' td', run = pre ++ s :: post ∧ alt' - s.ze > td' ∧ 0 ≤ td' ∧
      walkRun ρ dflt run alt td = s.startSec + ((ρ s.z (alt' - td')).getD (td' / (alt' - s.ze))) * s.durSec := by
  induction run generalizing alt td dflt with
  | nil => left; rfl
  | cons s rest ih =>
    simp only [walkRun]
    by_cases h1 : alt - s.ze < 0
    · left; rw [if_pos h1]
    · rw [if_neg h1]
      by_cases h2 : alt - s.ze ≤ td
      · rw [if_pos h2]
        rcases ih (if alt - s.ze > 0 then s.endSec else dflt) s.ze (td - (alt - s.ze)) (by linarith) with
          h | ⟨s', hs', h⟩ | ⟨pre, s', post, a', t', hrun, hgt, hnn, hres⟩
        · by_cases h3 : alt - s.ze > 0
          · right; left
            exact ⟨s, by simp, by rw [h, if_pos h3]⟩
          · left; rw [h, if_neg h3]
        · right; left
          exact ⟨s', by simp [hs'], h⟩
        · right; right
          exact ⟨s :: pre, s', post, a', t', by rw [hrun]; rfl, hgt, hnn, hres⟩
      · rw [if_neg h2]
        right; right
        exact ⟨[], s, rest, alt, td, rfl, by linarith, htd, rfl⟩

/-- with an oracle whose answers lie in [0,1], a landing inside the run lies inside the segment it is computed in -/
theorem walkRun_in_segment (ρ : Touch) (hρ : ∀ p v u, ρ p v = some u → 0 ≤ u ∧ u ≤ 1)
    (dflt : Rat) (run : List ZSeg) (alt td : Rat) (htd : 0 ≤ td) :
    walkRun ρ dflt run alt td = dflt ∨ ∃ s ∈ run, s.startSec ≤ walkRun ρ dflt run alt td ∧ walkRun ρ dflt run alt td ≤ s.endSec := by
  rcases walkRun_spec ρ dflt run alt td htd with h | ⟨s, hs, h⟩ | ⟨pre, s, post, a', t', hrun, hgt, hnn, hres⟩
  · left; exact h
  · right
    refine ⟨s, hs, ?_, by rw [h]⟩
    rw [h]
    unfold ZSeg.startSec ZSeg.endSec
    push_cast
    have : (0 : Rat) ≤ (s.durMs : Rat) := Nat.cast_nonneg _
    linarith
  · right
    have hpos : 0 < a' - s.ze := by linarith
    have hu0 : 0 ≤ (ρ s.z (a' - t')).getD (t' / (a' - s.ze)) := by
      cases hq : ρ s.z (a' - t') with
      | none => simpa using div_nonneg hnn (le_of_lt hpos)
      | some u => simpa using (hρ _ _ _ hq).1
    have hu1 : (ρ s.z (a' - t')).getD (t' / (a' - s.ze)) ≤ 1 := by
      cases hq : ρ s.z (a' - t') with
      | none =>
        simp only [Option.getD_none]
        rw [div_le_one hpos]; linarith
      | some u => simpa using (hρ _ _ _ hq).2
    have hd : 0 ≤ s.durSec := by unfold ZSeg.durSec; positivity
    refine ⟨s, by rw [hrun]; simp, ?_, ?_⟩
    · rw [hres]; nlinarith [mul_nonneg hu0 hd]
    · rw [hres]
      have he : s.endSec = s.startSec + s.durSec := by
        unfold ZSeg.endSec ZSeg.startSec ZSeg.durSec; push_cast; ring
      rw [he]
      nlinarith

/-- non-vacuity: flight, then two vertical segments descending 1000 + 500; preferred descent 700: the first is
consumed (1000 ≤ 800 is false … so the landing is inside the first, where 800 have been descended) -/
example :
    let segs : List ZSeg :=
      [{ startMs := 0, durMs := 1000, z := [0, 2000], x0 := 0, y0 := 0, z0 := 0, xe := 500, ye := 0, ze := 2000 },
       { startMs := 1000, durMs := 2000, z := [2000, -1000], x0 := 500, y0 := 0, z0 := 2000, xe := 500, ye := 0, ze := 1000 },
       { startMs := 3000, durMs := 1000, z := [1000, -500], x0 := 500, y0 := 0, z0 := 1000, xe := 500, ye := 0, ze := 500 }]
    (verticalSuffix 50 segs).length = 2 ∧ landingTime touchesLinear segs 700 50 = 1 + (4 / 5) * 2 := by
  decide +kernel

end Sb.C14
