/-
C04 — Show-file container is parsed exactly as laid out.

Model: `Sb/Model/Container.lean` (both backends).  Spec: `Sb/Spec/Container.lean`
(`header`, `records`), `Sb/Spec/Crc.lean` (`fileCrc`).
-/
import Sb.Proofs.ContainerInit

namespace Sb.C04
open Sb Sb.Container Sb.Spec Sb.Proofs

/-- the model refers to the block-type and feature numbers of the current headers -/
theorem enum_values : Gen.SB_BINARY_BLOCK_NONE = 0 ∧ Gen.SB_BINARY_FEATURE_CRC32 = 1 ∧
    Gen.magic = [0x73, 0x6b, 0x79, 0x62] ∧ Gen.versions = [1, 2] := by decide

/-- `init` is its grammar-level specification on every byte string, both backends -/
theorem init_eq_spec (mem : Bool) (data : Bytes) : init mem data = initSpec mem data :=
  init_spec mem data

theorem header_len (data : Bytes) (ver hlen : Nat) (c : Bool) (h : header data = some (ver, hlen, c)) :
    hlen ≤ data.length := by
  unfold header at h
  split at h
  · rename_i v rest
    split at h
    · injection h with h; injection h with _ h; injection h with h _; subst h; simp
    · split at h
      · split at h
        · rename_i f rest'
          split at h
          · split at h
            · injection h with h; injection h with _ h; injection h with h _; subst h
              simp only [List.length_cons]; omega
            · cases h
          · injection h with h; injection h with _ h; injection h with h _; subst h; simp
        · cases h
      · cases h
  · cases h

theorem records_ne_cut (a b c : UInt8) (r : Bytes) : records (a :: b :: c :: r) ≠ ([], Ending.cutInHeader) := by
  rw [records]
  split
  · simp
  · split <;> simp

/-- the first block header can be read unless the data ends inside it -/
theorem rewind_ok_iff (mem : Bool) (data : Bytes) (hlen ver feat : Nat) (hh : hlen ≤ data.length) :
    (∃ p, (startParser mem data hlen ver feat).rewind = .ok p) ↔
      records (data.drop hlen) ≠ ([], .cutInHeader) := by
  unfold Parser.rewind Parser.seek startParser
  have hns : ¬ (mem = true ∧ hlen > data.length) := by omega
  simp only [hns, if_false, bind, Except.bind]
  rw [hdr_spec]
  simp only
  rcases hx : data.drop hlen with _ | ⟨a, _ | ⟨b, _ | ⟨c, r⟩⟩⟩
  · simp [records]
  · simp [records]
  · simp [records]
  · simp only [records_ne_cut, ne_eq, not_false_eq_true, iff_true]
    exact ⟨_, rfl⟩

/-- **Acceptance.** A byte string is accepted exactly when it has a valid header (magic, version 1
or 2, feature byte for version 2, checksum field when the feature bit is set), the checksum
matches when present, and the first record header is not cut. -/
theorem accept_iff (mem : Bool) (data : Bytes) :
    (∃ p, init mem data = .ok p) ↔
      ∃ ver hlen hasCrc, header data = some (ver, hlen, hasCrc) ∧
        (hasCrc = true → storedCrc data = Spec.fileCrc data) ∧
        records (data.drop hlen) ≠ ([], .cutInHeader) := by
  rw [init_spec]
  unfold initSpec
  cases hh : header data with
  | none => simp
  | some t =>
    obtain ⟨ver, hlen, hasCrc⟩ := t
    simp only
    by_cases hc : hasCrc = true ∧ storedCrc data ≠ Spec.fileCrc data
    · rw [if_pos hc]
      constructor
      · rintro ⟨p, hp⟩; cases hp
      · rintro ⟨v, l, c, h1, h2, _⟩
        injection h1 with h1; injection h1 with _ h1; injection h1 with _ h1
        subst h1
        exact absurd (h2 hc.1) hc.2
    · rw [if_neg hc]
      rw [rewind_ok_iff mem data hlen ver _ (header_len data ver hlen hasCrc hh)]
      constructor
      · intro h
        refine ⟨ver, hlen, hasCrc, rfl, ?_, h⟩
        intro hcrc
        by_cases he : storedCrc data = Spec.fileCrc data
        · exact he
        · exact absurd ⟨hcrc, he⟩ hc
      · rintro ⟨v, l, c, h1, _, h3⟩
        injection h1 with h1; injection h1 with _ h1; injection h1 with h1 _
        subst h1
        exact h3

/-- **Error classes.** bad magic / version / short header → parse error; checksum mismatch →
corrupted data; data ending inside the first record header → read error. -/
theorem error_classes (mem : Bool) (data : Bytes) :
    (header data = none → init mem data = .error .eparse) ∧
    (∀ ver hlen, header data = some (ver, hlen, true) → storedCrc data ≠ Spec.fileCrc data →
        init mem data = .error .ecorrupted) ∧
    (∀ ver hlen c, header data = some (ver, hlen, c) → (c = true → storedCrc data = Spec.fileCrc data) →
        records (data.drop hlen) = ([], .cutInHeader) → init mem data = .error .eread) := by
  rw [init_spec]
  unfold initSpec
  refine ⟨?_, ?_, ?_⟩
  · intro h; simp [h]
  · intro ver hlen h hne; simp [h, hne]
  · intro ver hlen c h hc hcut
    have hh := header_len data ver hlen c h
    simp only [h]
    have : ¬ (c = true ∧ storedCrc data ≠ Spec.fileCrc data) := fun ⟨h1, h2⟩ => h2 (hc h1)
    simp only [this, if_false]
    unfold Parser.rewind Parser.seek startParser
    have hns : ¬ (mem = true ∧ hlen > data.length) := by omega
    simp only [hns, if_false, bind, Except.bind]
    rw [hdr_spec]
    simp only
    rcases hx : data.drop hlen with _ | ⟨a, _ | ⟨b, _ | ⟨c, r⟩⟩⟩
    · rw [hx] at hcut; simp [records] at hcut
    · rfl
    · rfl
    · rw [hx] at hcut; exact absurd hcut (records_ne_cut a b c r)

/-- **Iteration.** On an accepted file the blocks visible through `seek_to_next_block` /
`read_current_block` are exactly the records of the grammar, in order, ending at the end of the
data or at a record of type 0; a body cut short is a read error when read (and when stepped over on
the memory route). -/
theorem iteration_eq_records (mem : Bool) (data : Bytes) (ver hlen : Nat) (c : Bool)
    (h : header data = some (ver, hlen, c)) (hc : c = true → storedCrc data = Spec.fileCrc data) :
    walk mem data =
      (if records (data.drop hlen) = ([], .cutInHeader) then .error .eread
       else .ok (ver, (walkOf mem (records (data.drop hlen))).1, (walkOf mem (records (data.drop hlen))).2)) := by
  unfold walk
  rw [init_spec]
  unfold initSpec
  simp only [h]
  have : ¬ (c = true ∧ storedCrc data ≠ Spec.fileCrc data) := fun ⟨h1, h2⟩ => h2 (hc h1)
  simp only [this, if_false]
  exact walk_from_start mem data hlen ver _ (header_len data ver hlen c h)

/-- lookup in terms of the grammar's records -/
def findOf (mem : Bool) (ty : Nat) : List (Nat × Bytes) → Ending → R (Nat × Nat × R Bytes)
  | (t, b) :: rs, e => if t = ty then .ok (t, b.length, .ok b) else findOf mem ty rs e
  | [], .eof => .error .enoent
  | [], .type0 => .error .enoent
  | [], .cutInHeader => .error .eread
  | [], .cutInBody t len =>
    if t = ty then .ok (t, len, .error .eread) else if mem then .error .eread else .error .enoent

theorem search_walkOf (mem : Bool) (ty : Nat) (rs : List (Nat × Bytes)) (e : Ending) :
    searchWalk ty (walkOf mem (rs, e)) = findOf mem ty rs e := by
  induction rs with
  | nil =>
    cases e <;> simp [searchWalk, walkOf, findOf, Err.code, Gen.SB_EREAD]
    rename_i t len
    by_cases ht : t = ty <;> cases mem <;> simp [ht, Gen.SB_EREAD]
  | cons tb rs ih =>
    obtain ⟨t, b⟩ := tb
    have := walkOf_cons mem t b (rs, e)
    simp only at this
    rw [this]
    unfold searchWalk findOf
    by_cases ht : t = ty
    · simp [ht]
    · have hb : (t == ty) = false := by simp [ht]
      simp only [List.find?_cons, hb, ht, if_false]
      rw [← ih]
      unfold searchWalk
      rfl

theorem rewind_idem (q p : Parser) (h : q.rewind = .ok p) : p.rewind = .ok p := by
  unfold Parser.rewind Parser.seek at h ⊢
  by_cases hq : q.mem = true ∧ q.startOfFirstBlock > q.data.length
  · simp [hq, bind, Except.bind] at h
  · simp only [hq, if_false, bind, Except.bind] at h
    rw [hdr_spec] at h
    simp only at h
    split at h
    · rename_i hx
      injection h with h; subst h
      simp only [hq, if_false, bind, Except.bind]
      rw [hdr_spec]; simp only [hx]
    · cases h
    · cases h
    · rename_i ty l0 l1 r hx
      injection h with h; subst h
      simp only [hq, if_false, bind, Except.bind]
      rw [hdr_spec]; simp only [hx]

/-- **Lookup.** Looking up a block type yields the first record of that type with exactly its body
bytes, or 'not found' when there is none (read error when the data ends inside a record header, or
inside a body on the memory route). -/
theorem find_first_correct (mem : Bool) (data : Bytes) (ver hlen : Nat) (c : Bool) (p : Parser) (ty : Nat)
    (h : header data = some (ver, hlen, c)) (hc : c = true → storedCrc data = Spec.fileCrc data)
    (hp : init mem data = .ok p) :
    findObs (p.findFirstBlockByType ty) =
      findOf mem ty (records (data.drop hlen)).1 (records (data.drop hlen)).2 := by
  rw [init_spec] at hp
  unfold initSpec at hp
  simp only [h] at hp
  have hnc : ¬ (c = true ∧ storedCrc data ≠ Spec.fileCrc data) := fun ⟨h1, h2⟩ => h2 (hc h1)
  simp only [hnc, if_false] at hp
  have hh := header_len data ver hlen c h
  -- the state after init
  have hw := walk_from_start mem data hlen ver (if ver = 2 then (data.getD 5 0).toNat else 0) hh
  rw [hp] at hw
  simp only [bind, Except.bind, pure, Except.pure] at hw
  have hdata : p.data = data := by
    unfold Parser.rewind Parser.seek startParser at hp
    have hns : ¬ (mem = true ∧ hlen > data.length) := by omega
    simp only [hns, if_false, bind, Except.bind] at hp
    rw [hdr_spec] at hp
    simp only at hp
    split at hp <;> first | (injection hp with hp; subst hp; rfl) | cases hp
  unfold Parser.findFirstBlockByType
  rw [rewind_idem _ p hp]
  simp only [bind, Except.bind]
  rw [findLoop_eq_search, hdata]
  split at hw
  · cases hw
  · injection hw with hw
    injection hw with _ hw
    rw [← search_walkOf]
    congr 1

/-! ### non-vacuity -/

/-- a version-1 file with two comment blocks and a trailing type-0 record -/
def sample : Bytes := [0x73, 0x6b, 0x79, 0x62, 1, 3, 2, 0, 0x41, 0x42, 7, 0, 0, 0, 5, 0]

example : header sample = some (1, 5, false) := by decide
example : records (sample.drop 5) = ([(3, [0x41, 0x42]), (7, [])], .type0) := by
  simp [sample, records, recLen]
example : ∃ p, init true sample = .ok p := by
  rw [accept_iff]
  refine ⟨1, 5, false, by decide, by simp, ?_⟩
  simp [sample, records, recLen]

end Sb.C04
