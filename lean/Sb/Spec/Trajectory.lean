/-
Specification of the trajectory block format and of "position at time t", written over byte
lists (no offsets, no cursor):

  block   = header(9) segment*
  header  = scale|flags(1) x(2) y(2) z(2) yaw(2)                 (little-endian int16)
  segment = enc(1) duration_ms(2) x-points y-points z-points yaw-points
            enc bits (2 per axis) = 0/1/2/3 → 0/1/3/7 stored points (constant/linear/cubic/degree 7)

The control points of an axis are the end point of the previous segment (the start point for the
first) followed by the stored points: coordinates × scale, yaw in tenths of a degree reduced to
[0, 360).
-/
import Sb.Model.Poly
import Sb.Spec.Bezier

namespace Sb.Spec
open Sb.Poly

def i16le (b0 b1 : UInt8) : Int := toInt16 (b0.toNat + 256 * b1.toNat)

def coordOf (scale : Nat) (b0 b1 : UInt8) : Rat := (i16le b0 b1 : Rat) * (scale : Rat)

/-- tenths of a degree, reduced to [0, 3600), in degrees -/
def angleOf (b0 b1 : UInt8) : Rat := ((i16le b0 b1 % 3600 : Int) : Rat) / 10

/-- take `k` stored values of one axis -/
def takeVals (f : UInt8 → UInt8 → Rat) : Nat → Bytes → Option (List Rat × Bytes)
  | 0, rest => some ([], rest)
  | k + 1, b0 :: b1 :: rest =>
    match takeVals f k rest with
    | some (vs, r) => some (f b0 b1 :: vs, r)
    | none => none
  | _ + 1, _ => none

def storedPoints (bits : Nat) : Nat := 2 ^ (bits % 4) - 1

structure SegSpec where
  durMs : Nat
  ctrl : Poly4          -- control points per axis (first = start of the segment)
  deriving DecidableEq, Inhabited

def lastOr (l : List Rat) (d : Rat) : Rat := l.getLastD d

def SegSpec.endPt (s : SegSpec) (start : Vec4) : Vec4 :=
  ⟨lastOr s.ctrl.x start.x, lastOr s.ctrl.y start.y, lastOr s.ctrl.z start.z, lastOr s.ctrl.yaw start.yaw⟩

/-- decode one segment from the front of `rest`; `none` when it is incomplete -/
def decodeSeg (scale : Nat) (start : Vec4) (rest : Bytes) : Option (SegSpec × Bytes) :=
  match rest with
  | h :: d0 :: d1 :: r0 =>
    match takeVals (coordOf scale) (storedPoints h.toNat) r0 with
    | none => none
    | some (xs, r1) =>
      match takeVals (coordOf scale) (storedPoints (h.toNat / 4)) r1 with
      | none => none
      | some (ys, r2) =>
        match takeVals (coordOf scale) (storedPoints (h.toNat / 16)) r2 with
        | none => none
        | some (zs, r3) =>
          match takeVals angleOf (storedPoints (h.toNat / 64)) r3 with
          | none => none
          | some (ws, r4) =>
            some ({ durMs := d0.toNat + 256 * d1.toNat,
                    ctrl := ⟨start.x :: xs, start.y :: ys, start.z :: zs, start.yaw :: ws⟩ }, r4)
  | _ => none

/-- all complete segments, chained; decoding stops at the first incomplete one -/
def decodeSegs (scale : Nat) (start : Vec4) (rest : Bytes) (fuel : Nat := rest.length) : List SegSpec :=
  match fuel with
  | 0 => []
  | fuel + 1 =>
    match decodeSeg scale start rest with
    | none => []
    | some (s, r) => s :: decodeSegs scale (s.endPt start) r fuel

/-- the header -/
structure HeaderSpec where
  scale : Nat
  useYaw : Bool
  start : Vec4
  deriving Inhabited

def decodeHeader (b : Bytes) : Option (HeaderSpec × Bytes) :=
  match b with
  | f :: x0 :: x1 :: y0 :: y1 :: z0 :: z1 :: w0 :: w1 :: rest =>
    let scale := f.toNat % 128
    some ({ scale := scale, useYaw := f.toNat ≥ 128,
            start := ⟨coordOf scale x0 x1, coordOf scale y0 y1, coordOf scale z0 z1, angleOf w0 w1⟩ }, rest)
  | _ => none

/-- segments of a block; a zero scale means "no segments" -/
def segmentsOf (b : Bytes) : Option (HeaderSpec × List SegSpec) :=
  match decodeHeader b with
  | none => none
  | some (h, rest) => some (h, if h.scale = 0 then [] else decodeSegs h.scale h.start rest)

def Vec4.ofAxes (f : List Rat → Rat) (p : Poly4) : Vec4 := ⟨f p.x, f p.y, f p.z, f p.yaw⟩

/-- The position at time `t ≥ 0` seconds (exact rationals): the Bézier curve of the first
segment whose span `[T, T + d]` reaches `t`, at the elapsed fraction; the last end point when
`t` lies beyond all of them.  `T` in milliseconds. -/
def posAt (segs : List SegSpec) (start : Vec4) (T : Nat) (t : Rat) : Vec4 :=
  match segs with
  | [] => start
  | s :: rest =>
    if t ≤ ((T + s.durMs : Nat) : Rat) / 1000 then
      Vec4.ofAxes (fun c => bezier c ((t - (T : Rat) / 1000) / ((s.durMs : Rat) / 1000))) s.ctrl
    else posAt rest (s.endPt start) (T + s.durMs) t

def totalMs (segs : List SegSpec) : Nat := (segs.map (·.durMs)).sum

end Sb.Spec
