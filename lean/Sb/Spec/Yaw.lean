/-
Specification of the yaw-control block:

  block    = flags(1) offset(int16, tenths of a degree) setpoint*
  setpoint = duration_ms(uint16) change(int16, tenths of a degree)

yaw(t) = offset + all completed changes + elapsed fraction of the change in progress, in degrees.
-/
import Sb.Model.Basic
import Sb.Spec.Trajectory

namespace Sb.Spec

structure YawSpec where
  autoYaw : Bool
  offsetDdeg : Int
  deltas : List (Nat × Int)      -- (duration ms, change in tenths of a degree)
  deriving DecidableEq, Inhabited

/-- complete setpoints from the front of the bytes -/
def decodeDeltas : Bytes → List (Nat × Int)
  | d0 :: d1 :: c0 :: c1 :: rest => (d0.toNat + 256 * d1.toNat, i16le c0 c1) :: decodeDeltas rest
  | _ => []

def decodeYaw (b : Bytes) : Option YawSpec :=
  match b with
  | f :: o0 :: o1 :: rest => some { autoYaw := f.toNat % 2 = 1, offsetDdeg := i16le o0 o1, deltas := decodeDeltas rest }
  | _ => none

/-- yaw in degrees at `t` seconds, `T` = start of the list in ms, `y` = yaw at its start (ddeg) -/
def yawAtSpec (deltas : List (Nat × Int)) (y : Int) (T : Nat) (t : Rat) : Rat :=
  match deltas with
  | [] => (y : Rat) / 10
  | (d, c) :: rest =>
    if t ≤ ((T + d : Nat) : Rat) / 1000 then
      (y : Rat) / 10 + (c : Rat) / 10 * ((t - (T : Rat) / 1000) / ((d : Rat) / 1000))
    else yawAtSpec rest (y + c) (T + d) t

/-- yaw rate in degrees per second at `t` -/
def rateAtSpec (deltas : List (Nat × Int)) (T : Nat) (t : Rat) : Rat :=
  match deltas with
  | [] => 0
  | (d, c) :: rest =>
    if t ≤ ((T + d : Nat) : Rat) / 1000 then (c : Rat) / 10 / ((d : Rat) / 1000)
    else rateAtSpec rest (T + d) t

def yawEnd (deltas : List (Nat × Int)) (y : Int) : Int := deltas.foldl (fun a dc => a + dc.2) y
def yawTotalMs (deltas : List (Nat × Int)) : Nat := (deltas.map (·.1)).sum
def yawAbsSum (deltas : List (Nat × Int)) : Nat := (deltas.map (fun dc => dc.2.natAbs)).sum

end Sb.Spec
