/-
Declarative specification of the variable-length unsigned integer (base-128, little-endian,
continuation bit 0x80), written without looking at the C control flow.
-/
import Sb.Model.Parsing

namespace Sb.Spec
open Sb.Parsing

/-- Scan an encoding: `none` when the bytes end before a byte without continuation bit;
otherwise (number of bytes of the encoding, its base-128 little-endian value). -/
def scan : List UInt8 → Option (Nat × Nat)
  | [] => none
  | x :: xs =>
    if x.toNat < 128 then some (1, x.toNat)
    else
      match scan xs with
      | none => none
      | some (len, v) => some (len + 1, x.toNat % 128 + 128 * v)

/-- What `sb_parse_varuint32(buf, n, &off, &result)` must do, for a buffer of at least `n` bytes:
only the bytes at positions `off … n-1` matter. -/
def varuintSpec (b : Bytes) (n off : Nat) : VarRes :=
  match scan ((b.take n).drop off) with
  | none => .parse (max off n)
  | some (len, v) =>
    if len ≤ 5 ∧ v < 4294967296 then .ok v (off + len) else .overflow (off + len)

end Sb.Spec
