/-
Specification of the .skyb container, written as a grammar over byte lists:

  file    = "skyb" version [features] [crc32] record*
  record  = type(1) length(2, little-endian) body(length)

`records` cuts the bytes after the header into records, and says how the sequence ends.
-/
import Sb.Model.Basic

namespace Sb.Spec

inductive Ending where
  | eof                                   -- the data ends exactly after a record
  | type0                                 -- a record of type 0 (with its length bytes) ends the list
  | cutInHeader                           -- a type byte without both length bytes
  | cutInBody (ty len : Nat)              -- a record header whose body is cut short
  deriving DecidableEq, Repr

def recLen (l0 l1 : UInt8) : Nat := l0.toNat + 256 * l1.toNat

/-- the (type, body) records laid end to end, in file order, and the ending -/
def records (rest : Bytes) : List (Nat × Bytes) × Ending :=
  match rest with
  | [] => ([], .eof)
  | [_] => ([], .cutInHeader)
  | [_, _] => ([], .cutInHeader)
  | ty :: l0 :: l1 :: body =>
    if ty.toNat = 0 then ([], .type0)
    else if body.length < recLen l0 l1 then ([], .cutInBody ty.toNat (recLen l0 l1))
    else
      let r := records (body.drop (recLen l0 l1))
      ((ty.toNat, body.take (recLen l0 l1)) :: r.1, r.2)
termination_by rest.length
decreasing_by simp [List.length_drop]; omega

/-- The header of a file: `some (version, headerLength, hasCrc)` when magic, version and the
version-2 feature byte (and the checksum field when the feature bit is set) are present. -/
def header (data : Bytes) : Option (Nat × Nat × Bool) :=
  match data with
  | 0x73 :: 0x6b :: 0x79 :: 0x62 :: v :: rest =>
    if v.toNat = 1 then some (1, 5, false)
    else if v.toNat = 2 then
      match rest with
      | f :: rest' =>
        if f.toNat % 2 = 1 then (if rest'.length ≥ 4 then some (2, 10, true) else none)
        else some (2, 6, false)
      | [] => none
    else none
  | _ => none

end Sb.Spec
