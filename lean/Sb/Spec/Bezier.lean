/-
Specification of Bézier curves in Bernstein form (independent of the power-basis code).
-/
import Sb.Model.Basic

namespace Sb.Spec

/-- binomial coefficient by Pascal's rule -/
def choose : Nat → Nat → Nat
  | _, 0 => 1
  | 0, _ + 1 => 0
  | n + 1, k + 1 => choose n k + choose n (k + 1)

/-- Bernstein basis polynomial B_{i,n}(u) = C(n,i) u^i (1-u)^(n-i) -/
def bernstein (n i : Nat) (u : Rat) : Rat := (choose n i : Rat) * u ^ i * (1 - u) ^ (n - i)

/-- Σ_i B_{i,n}(u) · pts_i over the points from index `i` on -/
def bezierFrom (n : Nat) (u : Rat) : Nat → List Rat → Rat
  | _, [] => 0
  | i, p :: ps => bernstein n i u * p + bezierFrom n u (i + 1) ps

/-- the Bézier curve with control points `pts` at parameter `u` -/
def bezier (pts : List Rat) (u : Rat) : Rat := bezierFrom (pts.length - 1) u 0 pts

end Sb.Spec
