/-
Specification of AP-CRC32: bit-serial reflected CRC-32 with polynomial 0x04C11DB7,
initial value 0, no final inversion — written without any table.
-/
import Sb.Model.Basic

namespace Sb.Spec

/-- the CRC-32 polynomial in normal (MSB-first) notation -/
def polyNormal : BitVec 32 := 0x04C11DB7#32
/-- the same polynomial bit-reflected, as used by an LSB-first register -/
def poly : BitVec 32 := 0xEDB88320#32

/-- one bit step of the LSB-first shift register -/
def step1 (c : BitVec 32) : BitVec 32 :=
  if c.getLsbD 0 then (c >>> 1) ^^^ poly else c >>> 1

def step8 (c : BitVec 32) : BitVec 32 :=
  step1 (step1 (step1 (step1 (step1 (step1 (step1 (step1 c)))))))

/-- feed one byte -/
def crcByte (c : BitVec 32) (b : UInt8) : BitVec 32 := step8 (c ^^^ BitVec.ofNat 32 b.toNat)

/-- CRC register after feeding `bs` starting from `c` -/
def crc (c : BitVec 32) (bs : Bytes) : BitVec 32 := bs.foldl crcByte c

/-- a file with its checksum field (bytes 6..9) zeroed; files shorter than 10 bytes have no field -/
def zeroCrcField (file : Bytes) : Bytes :=
  if file.length ≥ 10 then file.take 6 ++ [0, 0, 0, 0] ++ file.drop 10 else file

/-- the AP-CRC32 of a whole file with the checksum field zeroed -/
def fileCrc (file : Bytes) : BitVec 32 := crc 0 (zeroCrcField file)

end Sb.Spec
