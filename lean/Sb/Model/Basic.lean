/-
Basic vocabulary of the executable model: byte strings, error codes, checked byte access,
exact decoding of IEEE-754 binary32 bit patterns to rationals, and `roundF32`
(round-to-nearest-even to binary32, in exact integer arithmetic).

Core Lean only (no Mathlib) so that the driver links.
-/
import Sb.Generated.Tables

namespace Sb

abbrev Bytes := List UInt8

/-- Library error codes (`sb_error_t`) that the modelled code can return, plus `fault`,
which is *not* a library code: it marks an execution that would be undefined behaviour in C
(out-of-bounds access, shift ≥ width, out-of-range float→int cast, ...). -/
inductive Err where
  | enomem | einval | eread | eparse | failure | eunimplemented | enoent | ecorrupted | eoverflow
  | fault
  deriving DecidableEq, Repr, Inhabited

/-- Number of the error in `sb_error_t`, taken from the generated table (translator). -/
def Err.code : Err → Nat
  | .enomem => Gen.SB_ENOMEM
  | .einval => Gen.SB_EINVAL
  | .eread => Gen.SB_EREAD
  | .eparse => Gen.SB_EPARSE
  | .failure => Gen.SB_FAILURE
  | .eunimplemented => Gen.SB_EUNIMPLEMENTED
  | .enoent => Gen.SB_ENOENT
  | .ecorrupted => Gen.SB_ECORRUPTED
  | .eoverflow => Gen.SB_EOVERFLOW
  | .fault => 1000

abbrev R (α : Type) := Except Err α

/-- Result code of a call as the harness prints it: 0 = success. -/
def R.rc {α} : R α → Nat
  | .ok _ => Gen.SB_SUCCESS
  | .error e => e.code

/-- Checked byte access: every read of the model goes through here. -/
def rd (b : Bytes) (i : Nat) : R Nat :=
  match b[i]? with
  | some x => .ok x.toNat
  | none => .error .fault

/-- two's complement reinterpretation of a 16-bit value -/
def toInt16 (v : Nat) : Int := if v < 32768 then (v : Int) else (v : Int) - 65536
def toInt32 (v : Nat) : Int := if v < 2147483648 then (v : Int) else (v : Int) - 4294967296

/-! ### Exact float32 decoding -/

def pow2 (e : Int) : Rat :=
  if e ≥ 0 then ((2 ^ e.toNat : Nat) : Rat) else 1 / ((2 ^ (-e).toNat : Nat) : Rat)

/-- A binary32 value. -/
inductive F32 where
  | fin (q : Rat)
  | pinf
  | ninf
  | nan
  deriving DecidableEq, Inhabited

/-- Decode a 32-bit pattern. (−0 decodes to 0.) -/
def F32.ofBits (w : Nat) : F32 :=
  let sign := (w / 2147483648) % 2
  let ex := (w / 8388608) % 256
  let man := w % 8388608
  if ex = 255 then
    if man = 0 then (if sign = 0 then .pinf else .ninf) else .nan
  else
    let mag : Rat :=
      if ex = 0 then (man : Rat) * pow2 (-149)
      else ((8388608 + man : Nat) : Rat) * pow2 ((ex : Int) - 150)
    .fin (if sign = 0 then mag else -mag)

def F32.isFinite : F32 → Bool
  | .fin _ => true
  | _ => false

def F32.toRat? : F32 → Option Rat
  | .fin q => some q
  | _ => none

/-- floor(log2 a) for a > 0 -/
def floorLog2 (a : Rat) : Int :=
  let e0 : Int := (a.num.natAbs.log2 : Int) - (a.den.log2 : Int)
  if pow2 e0 ≤ a then e0 else e0 - 1

/-- round half to even of a non-negative rational -/
def roundHalfEven (r : Rat) : Int :=
  let n := r.floor
  let f := r - (n : Rat)
  if f < 1/2 then n
  else if 1/2 < f then n + 1
  else if n % 2 = 0 then n else n + 1

/-- Round a rational to the nearest binary32 value (ties to even); overflow is not handled
(callers only use it far below 2^128). -/
def roundF32 (x : Rat) : Rat :=
  if x = 0 then 0 else
  let a := if x < 0 then -x else x
  let e := floorLog2 a
  let qe : Int := if e < -126 then -149 else e - 23
  let q := pow2 qe
  let n := roundHalfEven (a / q)
  let r := (n : Rat) * q
  if x < 0 then -r else r

def absR (x : Rat) : Rat := if x < 0 then -x else x

end Sb
