/-
Model of src/utils.c, the colour utilities of src/lights/colors.c and src/buffer.c.
Float code is modelled operation by operation with `roundF32` (all operations involved are
correctly rounded in IEEE-754), so results are predicted exactly; `sqrtf` is the one exception
(travel time), handled through a squared comparison in the acceptance relation.
-/
import Sb.Model.Basic
import Sb.Model.Colors

namespace Sb.Utils

def rf (q : Rat) : Rat := roundF32 q

/-! ### scale update -/

def absF : F32 → F32
  | .fin q => .fin (absR q)
  | .pinf => .pinf
  | .ninf => .pinf
  | .nan => .nan

/-- float `a > b` -/
def gtF : F32 → F32 → Bool
  | .fin a, .fin b => a > b
  | .pinf, .fin _ => true
  | .pinf, .ninf => true
  | .fin _, .ninf => true
  | _, _ => false

/-- `sb_i_scale_update(scale, x, y, z)` : new scale or overflow -/
def scaleUpdate (scale : Nat) (x y z : F32) : R Nat :=
  let scale := if scale = 0 then 1 else scale
  let mx := absF x
  let mx := if gtF (absF y) mx then absF y else mx
  let mx := if gtF (absF z) mx then absF z else mx
  let lim : Rat := (scale : Rat) * 32767
  if gtF mx (.fin lim) then
    match mx with
    | .fin m =>
      let ns := (rf (m / 32767)).ceil
      if ns ≤ 127 then .ok ns.toNat else .error .eoverflow
    | _ => .error .eoverflow
  else .ok scale

/-! ### seconds → milliseconds -/

/-- `MAX_DURATION_SEC = ((float)UINT32_MAX) / 1000.0f` -/
def maxDurationSec : Rat := rf (rf 4294967295 / 1000)

/-- `sb_uint32_msec_duration_from_float_seconds` -/
def msecFromSeconds (s : F32) : R Nat :=
  match s with
  | .nan => .error .einval
  | .ninf => .error .einval
  | .pinf => .error .eoverflow
  | .fin q =>
    if q < 0 then .error .einval
    else if q > maxDurationSec then .error .eoverflow
    else
      let ms := rf (q * 1000)
      -- the product must be representable in 32 bits (converting a larger float is undefined)
      if ms ≥ 4294967296 then .error .eoverflow else .ok ms.floor.toNat

/-! ### interval / box expansion -/

/-- `sb_interval_expand` on finite values: (min, max) -/
def intervalExpand (mn mx off : Rat) : Rat × Rat :=
  let mn' := rf (mn - off)
  let mx' := rf (mx + off)
  if mx' < mn' then
    let mid := rf (mn' + rf (rf (mx' - mn') / 2))
    (mid, mid)
  else (mn', mx')

/-! ### colours -/

def truncNat (q : Rat) : Nat := if q < 0 then 0 else q.floor.toNat

/-- `sb_rgb_color_linear_interpolation`, one channel, finite ratio -/
def lerpChanF (f s : Nat) (ratio : Rat) : Nat :=
  let v := rf ((f : Rat) + rf (((s : Int) - (f : Int) : Int) * ratio))
  if v < 0 then 0 else if v > 255 then 255 else truncNat v

/-- `SB_RGBW_CONVERSION_SUBTRACT_MIN` -/
def rgbwSubtractMin (r g b : Nat) : Nat × Nat × Nat × Nat :=
  let w := min r (min g b)
  (r - w, g - w, b - w, w)

/-- `sb_rgbw_conversion_use_reference_color` : (mul, div) triples -/
def refParams (rr rg rb : Nat) : (Rat × Rat × Rat) × (Rat × Rat × Rat) :=
  let mx : Rat := max 1 (max rr (max rg rb) : Nat)
  let m := fun (c : Nat) => if c ≥ 1 then rf (mx / (c : Rat)) else 255
  let mul := (m rr, m rg, m rb)
  ((mul), (rf (1 / mul.1), rf (1 / mul.2.1), rf (1 / mul.2.2)))

/-- `SB_RGBW_CONVERSION_USE_REFERENCE` -/
def rgbwReference (r g b : Nat) (mul div : Rat × Rat × Rat) : Nat × Nat × Nat × Nat :=
  let s0 := rf ((r : Rat) * mul.1)
  let s1 := rf ((g : Rat) * mul.2.1)
  let s2 := rf ((b : Rat) * mul.2.2)
  let ms := min s0 (min s1 s2)
  let w : Nat := if ms ≤ 0 then 0 else if ms ≤ 255 then truncNat ms else 255
  let chan := fun (c : Nat) (d : Rat) =>
    let corr := rf ((w : Rat) * d)
    if (c : Rat) > corr then truncNat (rf ((c : Rat) - corr)) else 0
  (chan r div.1, chan g div.2.1, chan b div.2.2, w)

/-! ### the conversion object and its setup calls (state machine over `sb_rgbw_conversion_use_*`) -/

inductive Conv where
  | fixed (v : Nat)
  | subMin
  /-- multipliers, divisors and the remembered colour temperature (`0` marks "not based on a temperature") -/
  | ref (mul div : Rat × Rat × Rat) (temp : F32)
  deriving DecidableEq, Inhabited

/-- C `==` on binary32 values (−0 decodes to 0, NaN equals nothing) -/
def floatEq (a b : F32) : Bool :=
  match a, b with
  | .fin x, .fin y => x = y
  | .pinf, .pinf => true
  | .ninf, .ninf => true
  | _, _ => false

/-- a zeroed `sb_rgbw_conversion_t` -/
def Conv.zero : Conv := .fixed 0
def Conv.useFixed (_ : Conv) (v : Nat) : Conv := .fixed v
def Conv.turnOff (c : Conv) : Conv := c.useFixed 0
def Conv.useMin (_ : Conv) : Conv := .subMin
def Conv.useReference (_ : Conv) (rr rg rb : Nat) : Conv :=
  let p := refParams rr rg rb
  .ref p.1 p.2 (.fin 0)
/-- `sb_rgbw_conversion_use_color_temperature`; `bb` is the black-body colour of `t` (libm's `powf`/`logf` are not
modelled: the colour is an input).  The set-up is skipped when the object already holds this temperature. -/
def Conv.useTemperature (c : Conv) (t : F32) (bb : Nat × Nat × Nat) : Conv :=
  let fresh : Conv := let p := refParams bb.1 bb.2.1 bb.2.2; .ref p.1 p.2 t
  match c with
  | .ref _ _ t0 => if floatEq t0 t then c else fresh
  | _ => fresh
/-- `sb_rgb_color_to_rgbw` -/
def Conv.convert (c : Conv) (r g b : Nat) : Nat × Nat × Nat × Nat :=
  match c with
  | .fixed v => (r, g, b, v)
  | .subMin => rgbwSubtractMin r g b
  | .ref mul div _ => rgbwReference r g b mul div

/-! ### growable byte buffer -/

structure Buf where
  bytes : Bytes
  capacity : Nat
  owned : Bool
  deriving DecidableEq, Inhabited

/-- `sb_buffer_init` -/
def Buf.init (n : Nat) : Buf := { bytes := List.replicate n 0, capacity := max n 1, owned := true }
/-- `sb_buffer_init_view` -/
def Buf.view (b : Bytes) : Buf := { bytes := b, capacity := b.length, owned := false }

/-- `sb_i_buffer_realloc` -/
def Buf.realloc (b : Buf) (cap : Nat) : R Buf :=
  let cap := if cap < 1 then 1 else cap
  if b.capacity ≠ cap then
    if !b.owned then .error .failure
    else .ok { b with capacity := cap, bytes := b.bytes.take cap }
  else .ok b

/-- the doubling loop of `sb_i_buffer_ensure_free_space`; a zero capacity is treated as one -/
def growCap : Nat → Nat → Nat → Nat
  | 0, cap, _ => cap
  | fuel + 1, cap, need => if need > cap then growCap fuel (if cap = 0 then 1 else cap * 2) need else cap

/-- `sb_i_buffer_ensure_free_space` -/
def Buf.ensureFree (b : Buf) (minSpace : Nat) : R Buf :=
  if minSpace = 0 then .ok b
  else b.realloc (growCap 70 b.capacity (b.bytes.length + minSpace))

/-- `sb_buffer_append_bytes` -/
def Buf.append (b : Buf) (xs : Bytes) : R Buf := do
  let b1 ← b.ensureFree xs.length
  pure { b1 with bytes := b1.bytes ++ xs }

/-- `sb_buffer_extend_with_zeros` (asks for room for size + n more bytes, as the code does) -/
def Buf.extendZeros (b : Buf) (n : Nat) : R Buf := do
  let b1 ← b.ensureFree (b.bytes.length + n)
  pure { b1 with bytes := b1.bytes ++ List.replicate n 0 }

/-- `sb_buffer_resize` -/
def Buf.resize (b : Buf) (n : Nat) : R Buf :=
  if !b.owned then .error .failure
  else if b.bytes.length < n then do
    let b1 ← b.realloc n
    pure { b1 with bytes := b1.bytes ++ List.replicate (n - b1.bytes.length) 0 }
  else .ok { b with bytes := b.bytes.take n }

def Buf.clear (b : Buf) : R Buf := b.resize 0
/-- `sb_buffer_prune` -/
def Buf.prune (b : Buf) : R Buf := b.realloc b.bytes.length
/-- `sb_buffer_fill` -/
def Buf.fill (b : Buf) (v : UInt8) : Buf := { b with bytes := b.bytes.map (fun _ => v) }

end Sb.Utils
