/-
Model of src/trajectory/builder.c.  Coordinates arrive as binary32 values (exact rationals); every
float operation of the C code (division by the scale, midpoints, `fmodf`, `* 10.0f`) is correctly
rounded in IEEE-754 and therefore modelled exactly with `roundF32`, so the builder's buffer is
predicted byte for byte.
-/
import Sb.Model.Parsing
import Sb.Model.Poly

namespace Sb.Builder
open Sb.Parsing Sb.Poly

structure Builder where
  buf : Bytes
  last : Vec4
  scale : Nat
  deriving DecidableEq, Inhabited

def rf (q : Rat) : Rat := roundF32 q

/-- `sb_trajectory_builder_init` -/
def init (scale flags : Nat) : R Builder :=
  if scale = 0 ∨ scale > 127 then .error .einval
  else
    let h := if flags &&& 1 ≠ 0 then scale ||| 128 else scale
    .ok { buf := UInt8.ofNat h :: List.replicate (Gen.builderHeaderLength - 1) 0, last := ⟨0, 0, 0, 0⟩, scale := scale }

/-- `sb_i_trajectory_builder_scale_coordinate` : `floorf(coordinate / scale)` with the int16 range test -/
def scaleCoord (b : Builder) (c : Rat) : R Int :=
  let s := (rf (c / (b.scale : Rat))).floor
  if s < -32768 ∨ s > 32767 then .error .einval else .ok s

/-- C `fmodf(x, 360)` : exact, sign of the dividend -/
def fmod360 (x : Rat) : Rat :=
  let q := x / 360
  let t : Int := if q < 0 then -((-q).floor) else q.floor
  x - 360 * (t : Rat)

/-- `sb_i_trajectory_builder_write_angle` : `(int16_t)(fmodf(angle, 360) * 10.0f)`, plus 3600 if negative -/
def angleBytes (a : Rat) : List UInt8 :=
  let v := rf (fmod360 a * 10)
  let t : Int := if v < 0 then -((-v).floor) else v.floor
  let t := if t < 0 then t + 3600 else t
  writeI16 t

def replaceAt (l : Bytes) (off : Nat) (xs : Bytes) : Bytes := l.take off ++ xs ++ l.drop (off + xs.length)

/-- `sb_trajectory_builder_set_start_position` (all coordinates are validated before anything is written) -/
def setStart (b : Builder) (p : Vec4) : R Builder :=
  if b.buf.length ≠ Gen.builderHeaderLength then .error .failure
  else do
    let x ← scaleCoord b p.x
    let y ← scaleCoord b p.y
    let z ← scaleCoord b p.z
    pure { b with buf := replaceAt b.buf 1 (writeI16 x ++ writeI16 y ++ writeI16 z ++ angleBytes p.yaw), last := p }

/-- one segment of at most `MAX_DURATION_MSEC` -/
def appendSegment (b : Builder) (t : Vec4) (ms : Nat) : R Builder := do
  let fx := if b.last.x ≠ t.x then 1 else 0
  let fy := if b.last.y ≠ t.y then 4 else 0
  let fz := if b.last.z ≠ t.z then 16 else 0
  let fw := if b.last.yaw ≠ t.yaw then 64 else 0
  let xs ← (if b.last.x ≠ t.x then (scaleCoord b t.x).map writeI16 else pure [])
  let ys ← (if b.last.y ≠ t.y then (scaleCoord b t.y).map writeI16 else pure [])
  let zs ← (if b.last.z ≠ t.z then (scaleCoord b t.z).map writeI16 else pure [])
  let ws := if b.last.yaw ≠ t.yaw then angleBytes t.yaw else []
  pure { b with buf := b.buf ++ [UInt8.ofNat (fx + fy + fz + fw)] ++ writeU16 (ms % 65536) ++ xs ++ ys ++ zs ++ ws, last := t }

/-- the recursive splitting of `sb_trajectory_builder_append_line` -/
def appendLineAux : Nat → Builder → Vec4 → Nat → R Builder
  | 0, _, _, _ => .error .fault
  | fuel + 1, b, t, ms =>
    if ms > Gen.builderMaxDurationMsec then do
      let half := ms / 2
      let mid : Vec4 := ⟨rf (rf (b.last.x + t.x) / 2), rf (rf (b.last.y + t.y) / 2), rf (rf (b.last.z + t.z) / 2),
        rf (rf (b.last.yaw + t.yaw) / 2)⟩
      let b1 ← appendLineAux fuel b mid half
      appendLineAux fuel b1 t (ms - half)
    else appendSegment b t ms

/-- `sb_trajectory_builder_append_line` : the target is validated first, so a failing call changes nothing -/
def appendLine (b : Builder) (t : Vec4) (ms : Nat) : R Builder := do
  let _ ← scaleCoord b t.x
  let _ ← scaleCoord b t.y
  let _ ← scaleCoord b t.z
  appendLineAux 34 b t ms

/-- `sb_trajectory_builder_hold_position_for` -/
def holdForAux : Nat → Builder → Nat → R Builder
  | 0, _, _ => .error .fault
  | fuel + 1, b, ms =>
    if ms > 0 then do
      let cur := if ms > Gen.builderMaxDurationMsec then Gen.builderMaxDurationMsec else ms
      let b1 ← appendLine b b.last cur
      holdForAux fuel b1 (ms - cur)
    else .ok b

def holdFor (b : Builder) (ms : Nat) : R Builder := holdForAux (ms / Gen.builderMaxDurationMsec + 2) b ms

/-- `sb_trajectory_init_from_builder` : the trajectory takes the bytes, the builder restarts with its header byte,
at the origin (as after `init`) -/
def finish (b : Builder) : Bytes × Builder :=
  (b.buf, { b with buf := b.buf.take 1 ++ List.replicate (Gen.builderHeaderLength - 1) 0, last := ⟨0, 0, 0, 0⟩ })

end Sb.Builder
