/-
Allocation ledger (C17): which C allocations each API call performs, in which order, what happens
when the k-th one fails, and which blocks are live afterwards.  Built on the models of the
buffer (capacity doubling), the container (is the block found?), the loaders and the builder.

Only `calloc` / `realloc` / `free` of the C parts are tracked; the light *player* allocates with
`operator new`, which the ledger does not see.
-/
import Sb.Model.Load
import Sb.Model.RthConvert

namespace Sb.Ledger
open Sb.Utils Sb.Builder Sb.Poly

structure L where
  failAt : Nat                      -- 1-based index of the allocation that fails; 0 = none
  allocs : Nat := 0                 -- allocation attempts so far
  live : Nat := 0                   -- live blocks owned by the library
  buf : Option Buf := none
  traj : Option Bool := none        -- `some owned`
  prog : Option Bool := none
  yaw : Option Bool := none
  plan : Option Bool := none
  player : Bool := false
  bld : Option (Builder × Nat) := none   -- builder and the capacity of its buffer
  deriving Inhabited

/-- one allocation attempt: does it succeed? -/
def attempt (s : L) : Bool × L :=
  let s' := { s with allocs := s.allocs + 1 }
  (!(s.failAt ≠ 0 ∧ s'.allocs = s.failAt), s')

def ENOMEM : Int := (Gen.SB_ENOMEM : Nat)
def codeOf (e : Err) : Int := (e.code : Nat)

/-- `sb_i_buffer_realloc(buf, cap)` with ledger: returns rc and the new capacity -/
def reallocL (s : L) (owned : Bool) (cap newCap : Nat) : Int × L × Nat :=
  let nc := if newCap < 1 then 1 else newCap
  if cap ≠ nc then
    if !owned then (codeOf .failure, s, cap)
    else
      let (ok, s1) := attempt s
      if ok then (0, s1, nc) else (ENOMEM, s1, cap)
  else (0, s, cap)

/-! ### byte buffer slot -/

def bufGrow (s : L) (b : Buf) (minSpace : Nat) : Int × L × Buf :=
  if minSpace = 0 then (0, s, b)
  else
    let (rc, s1, cap) := reallocL s b.owned b.capacity (growCap 70 b.capacity (b.bytes.length + minSpace))
    (rc, s1, { b with capacity := cap })

def opBuf (s : L) (k : Char) (n : Nat) : Int × L :=
  match k, s.buf with
  | 'i', some _ => (-2, s)
  | 'i', none =>
    let (ok, s1) := attempt s
    if ok then (0, { s1 with live := s1.live + 1, buf := some (Buf.init n) }) else (ENOMEM, s1)
  | 'o', some _ => (-2, s)
  | 'o', none =>
    -- `sb_buffer_init_from_bytes`: the buffer adopts the caller's block (one more live block); size 0 is refused
    if n = 0 then (codeOf .einval, s)
    else (0, { s with live := s.live + 1, buf := some { bytes := List.replicate n 0, capacity := n, owned := true } })
  | 'v', some _ => (-2, s)
  | 'v', none => (0, { s with buf := some (Buf.view (List.replicate n 0)) })
  | _, none => (-1, s)
  | 'a', some b =>
    let (rc, s1, b1) := bufGrow s b n
    if rc = 0 then (0, { s1 with buf := some { b1 with bytes := b1.bytes ++ List.replicate n 0x5a } }) else (rc, { s1 with buf := some b1 })
  | 'z', some b =>
    let (rc, s1, b1) := bufGrow s b (b.bytes.length + n)
    if rc = 0 then (0, { s1 with buf := some { b1 with bytes := b1.bytes ++ List.replicate n 0 } }) else (rc, { s1 with buf := some b1 })
  | 'r', some b =>
    if !b.owned then (codeOf .failure, s)
    else if b.bytes.length < n then
      let (rc, s1, cap) := reallocL s true b.capacity n
      if rc = 0 then (0, { s1 with buf := some { b with capacity := cap, bytes := b.bytes ++ List.replicate (n - b.bytes.length) 0 } })
      else (rc, s1)
    else (0, { s with buf := some { b with bytes := b.bytes.take n } })
  | 'p', some b =>
    let (rc, s1, cap) := reallocL s b.owned b.capacity b.bytes.length
    (rc, { s1 with buf := some { b with capacity := cap } })
  | 'c', some b => if b.owned then (0, { s with buf := some { b with bytes := [] } }) else (codeOf .failure, s)
  | 'd', some b => (0, { s with buf := none, live := if b.owned then s.live - 1 else s.live })
  | _, _ => (-3, s)

/-! ### loaders -/

open Sb.Load in
/-- load through a descriptor: the block is copied into a fresh allocation once it has been found -/
def loadFd (s : L) (k : Kind) (data : Bytes) : Int × L × Bool :=
  match (do let p ← Container.init false data; p.findFirstBlockByType k.blockType : R Container.Parser) with
  | .error e => (codeOf e, s, false)
  | .ok p1 =>
    let (ok, s1) := attempt s
    if !ok then (ENOMEM, s1, false)
    else
      -- the block is live now; any later failure frees it again
      match p1.readCurrentBlock with
      | .error e => (codeOf e, s1, false)
      | .ok (bytes, _) =>
        if k = .light ∧ bytes.isEmpty then
          -- empty light program: a fresh empty buffer replaces the zero-length copy
          let (ok2, s2) := attempt s1
          if ok2 then (0, { s2 with live := s2.live + 1 }, true) else (ENOMEM, s2, false)
        else
          match initFromBytes k bytes true with
          | .error e => (codeOf e, s1, false)
          | .ok _ => (0, { s1 with live := s1.live + 1 }, true)

open Sb.Load in
/-- load from memory: a view (no allocation), except the RTH plan which always copies -/
def loadMem (s : L) (k : Kind) (data : Bytes) : Int × L × Bool :=
  if k = .rth then
    match (do let p ← Container.init true data; p.findFirstBlockByType k.blockType : R Container.Parser) with
    | .error e => (codeOf e, s, false)
    | .ok p1 =>
      let (ok, s1) := attempt s
      if !ok then (ENOMEM, s1, false)
      else
        match p1.readCurrentBlock with
        | .error e => (codeOf e, s1, false)
        | .ok (bytes, _) =>
          match initFromBytes k bytes true with
          | .error e => (codeOf e, s1, false)
          | .ok _ => (0, { s1 with live := s1.live + 1 }, true)
  else
    match load k true data with
    | .error e => (codeOf e, s, false)
    | .ok _ => (0, s, true)

/-! ### builder with capacity -/

def appendSegmentL (s : L) (b : Builder) (cap : Nat) (t : Vec4) (ms : Nat) : Int × L × Builder × Nat :=
  let (rc, s1, cap1) := reallocL s true cap (growCap 70 cap (b.buf.length + (b.buf.length + Gen.builderExtend)))
  if rc ≠ 0 then (rc, s1, b, cap)
  else
    match appendSegment b t ms with
    | .ok b1 => (0, s1, b1, cap1)
    | .error e => (codeOf e, s1, b, cap1)

def appendLineAuxL : Nat → L → Builder → Nat → Vec4 → Nat → Int × L × Builder × Nat
  | 0, s, b, cap, _, _ => (-9, s, b, cap)
  | fuel + 1, s, b, cap, t, ms =>
    match (do let _ ← scaleCoord b t.x; let _ ← scaleCoord b t.y; let _ ← scaleCoord b t.z; pure () : R Unit) with
    | .error e => (codeOf e, s, b, cap)
    | .ok _ =>
      if ms > Gen.builderMaxDurationMsec then
        let half := ms / 2
        let mid : Vec4 := ⟨Builder.rf (Builder.rf (b.last.x + t.x) / 2), Builder.rf (Builder.rf (b.last.y + t.y) / 2),
          Builder.rf (Builder.rf (b.last.z + t.z) / 2), Builder.rf (Builder.rf (b.last.yaw + t.yaw) / 2)⟩
        let (rc, s1, b1, cap1) := appendLineAuxL fuel s b cap mid half
        if rc ≠ 0 then (rc, s1, b1, cap1) else appendLineAuxL fuel s1 b1 cap1 t (ms - half)
      else appendSegmentL s b cap t ms

def appendLineL (s : L) (b : Builder) (cap : Nat) (t : Vec4) (ms : Nat) : Int × L × Builder × Nat :=
  appendLineAuxL 34 s b cap t ms

def holdForAuxL : Nat → L → Builder → Nat → Nat → Int × L × Builder × Nat
  | 0, s, b, cap, _ => (-9, s, b, cap)
  | fuel + 1, s, b, cap, ms =>
    if ms > 0 then
      let cur := if ms > Gen.builderMaxDurationMsec then Gen.builderMaxDurationMsec else ms
      let (rc, s1, b1, cap1) := appendLineL s b cap b.last cur
      if rc ≠ 0 then (rc, s1, b1, cap1) else holdForAuxL fuel s1 b1 cap1 (ms - cur)
    else (0, s, b, cap)

def holdForL (s : L) (b : Builder) (cap : Nat) (ms : Nat) : Int × L × Builder × Nat :=
  holdForAuxL (ms / Gen.builderMaxDurationMsec + 2) s b cap ms

def opBld (s : L) (k : Char) (n : Nat) : Int × L :=
  match k, s.bld with
  | 'i', some _ => (-2, s)
  | 'i', none =>
    match Builder.init n 0 with
    | .error e => (codeOf e, s)
    | .ok b =>
      let (ok, s1) := attempt s
      if ok then (0, { s1 with live := s1.live + 1, bld := some (b, Gen.builderHeaderLength) }) else (ENOMEM, s1)
  | _, none => (-1, s)
  | 'a', some (b, cap) =>
    let t : Vec4 := ⟨Builder.rf (b.last.x + 10), 5, Builder.rf (b.last.z + 1), 0⟩
    let (rc, s1, b1, cap1) := appendLineL s b cap t n
    (rc, { s1 with bld := some (b1, cap1) })
  | 'h', some (b, cap) =>
    let (rc, s1, b1, cap1) := holdForL s b cap n
    (rc, { s1 with bld := some (b1, cap1) })
  | 'f', some (b, _) =>
    if s.traj.isSome then (-2, s) else
    let (ok, s1) := attempt s
    if !ok then (ENOMEM, s1)
    else
      -- the trajectory takes the builder's block; the builder continues with the new one
      (0, { s1 with live := s1.live + 1, traj := some true, bld := some ((finish b).2, Gen.builderHeaderLength) })
  | 'd', some _ => (0, { s with bld := none, live := s.live - 1 })
  | _, _ => (-3, s)

/-- the RTH entry conversion with ledger: a local builder is created, used and destroyed -/
def convertL (s : L) (e : RthConvert.EntryF) (start : Vec4) : Int × L :=
  if s.traj.isSome then (-2, s) else
  match RthConvert.chooseScale e start with
  | .error err => (codeOf err, s)
  | .ok scale =>
    match msecFromSeconds (RthConvert.addF (RthConvert.startTime e) (if RthConvert.gt0 e.preDelay then e.preDelay else .fin 0)) with
    | .error err => (codeOf err, s)
    | .ok _ =>
      match Builder.init scale 0 with
      | .error err => (codeOf err, s)
      | .ok b0 =>
        let (ok, s1) := attempt s
        if !ok then (ENOMEM, s1)
        else
          let s1 := { s1 with live := s1.live + 1 }
          -- from here on every failure releases the builder (one block)
          let fail (rc : Int) (s : L) : Int × L := (rc, { s with live := s.live - 1 })
          match setStart b0 start with
          | .error err => fail (codeOf err) s1
          | .ok b1 =>
            let rec go : List RthConvert.Phase → L → Builder → Nat → Int × L × Builder × Nat
              | [], s, b, cap => (0, s, b, cap)
              | .hold sec :: rest, s, b, cap =>
                match msecFromSeconds sec with
                | .error err => (codeOf err, s, b, cap)
                | .ok ms =>
                  let (rc, s', b', cap') := holdForL s b cap ms
                  if rc ≠ 0 then (rc, s', b', cap') else go rest s' b' cap'
              | .line t sec :: rest, s, b, cap =>
                match msecFromSeconds sec with
                | .error err => (codeOf err, s, b, cap)
                | .ok ms =>
                  let (rc, s', b', cap') := appendLineL s b cap t ms
                  if rc ≠ 0 then (rc, s', b', cap') else go rest s' b' cap'
              | .invalidAction :: _, s, b, cap => (codeOf .einval, s, b, cap)
            let (rc, s2, _, _) := go (RthConvert.phases e start) s1 b1 Gen.builderHeaderLength
            if rc ≠ 0 then fail rc s2
            else
              -- finish: new builder buffer first, then hand-over, then the builder is destroyed
              let (ok2, s3) := attempt s2
              if !ok2 then fail ENOMEM s3
              else (0, { s3 with traj := some true })   -- +1 (new buffer) -1 (builder destroyed): the old block now belongs to the trajectory

/-! ### the scenario language -/

open Sb.Load in
inductive Op where
  | buf (k : Char) (n : Nat)
  | bld (k : Char) (n : Nat)
  | loadFd (kind : Kind) (data : Bytes)
  | loadMem (kind : Kind) (data : Bytes)
  | loadOwned (kind : Kind) (data : Bytes)
  | initEmpty (kind : Kind)
  | destroy (kind : Kind)
  | other (kind : Kind)                       -- clear / queries: no allocation
  | playerInit
  | playerDestroy
  | solve (n : Nat)
  | convert (e : RthConvert.EntryF) (start : Vec4)

open Sb.Load in
def slotOf (s : L) (k : Kind) : Option Bool :=
  match k with | .traj => s.traj | .light => s.prog | .yaw => s.yaw | .rth => s.plan

open Sb.Load in
def setSlot (s : L) (k : Kind) (v : Option Bool) : L :=
  match k with
  | .traj => { s with traj := v } | .light => { s with prog := v } | .yaw => { s with yaw := v } | .rth => { s with plan := v }

open Sb.Load in
/-- one API call on the ledger: (return code, new ledger) -/
def run (s : L) : Op → Int × L
  | .buf k n => opBuf s k n
  | .bld k n => opBld s k n
  | .loadFd kind data =>
    if (slotOf s kind).isSome then (-2, s) else
    let (rc, s1, ok) := loadFd s kind data
    (rc, if ok then setSlot s1 kind (some true) else s1)
  | .loadMem kind data =>
    if (slotOf s kind).isSome then (-2, s) else
    let (rc, s1, ok) := loadMem s kind data
    (rc, if ok then setSlot s1 kind (some (kind = .rth)) else s1)
  | .loadOwned kind data =>
    if (slotOf s kind).isSome then (-2, s) else
    -- the caller hands an allocated copy over; a failed init does not take it (the caller frees it)
    match initFromBytes kind data true with
    | .ok _ => (0, setSlot { s with live := s.live + 1 } kind (some true))
    | .error e => (codeOf e, s)
  | .initEmpty kind =>
    if (slotOf s kind).isSome then (-2, s) else
    if kind = .rth then (0, setSlot s kind (some false))
    else
      let (ok, s1) := attempt s
      if ok then (0, setSlot { s1 with live := s1.live + 1 } kind (some true)) else (ENOMEM, s1)
  | .destroy kind =>
    match slotOf s kind with
    | none => (-1, s)
    | some owned => (0, setSlot { s with live := if owned then s.live - 1 else s.live } kind none)
  | .other kind => if (slotOf s kind).isSome then (0, s) else (-1, s)
  | .playerInit => if s.prog.isNone ∨ s.player then (-1, s) else (0, { s with player := true })
  | .playerDestroy => if s.player then (0, { s with player := false }) else (-1, s)
  | .solve n =>
    if n = 0 then (0, s)
    else
      let (ok, s1) := attempt s
      if ok then ((if n ≤ 4 then 0 else ((Err.eunimplemented.code : Nat) : Int)), s1) else (ENOMEM, s1)
  | .convert e start => convertL s e start

def slotN : Option Bool → Nat
  | some true => 1
  | _ => 0

def bufN : Option Buf → Nat
  | some b => if b.owned then 1 else 0
  | none => 0

def bldN : Option (Builder × Nat) → Nat
  | some _ => 1
  | none => 0

/-- number of blocks that the live objects own -/
def ownedCount (s : L) : Nat :=
  bufN s.buf + slotN s.traj + slotN s.prog + slotN s.yaw + slotN s.plan + bldN s.bld

/-- the ledger invariant: the live blocks are exactly the blocks owned by live objects -/
def Inv (s : L) : Prop := s.live = ownedCount s

end Sb.Ledger
