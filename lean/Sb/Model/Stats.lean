/-
Model of src/trajectory/stats.c (`sb_trajectory_stats_calculator_run`) and of the two proposal functions of
trajectory.c, in exact arithmetic, over the decoded segments of a trajectory, and generic over the
**root oracle** `Touch` (what `sb_poly_touches` answers for the altitude polynomial of a segment).

The pass sees of every segment: its start time and duration (milliseconds), its altitude polynomial on [0,1]
and its first and last control points.
-/
import Sb.Model.Poly
import Sb.Spec.Trajectory

namespace Sb.Stats
open Sb Sb.Poly Sb.Spec

structure ZSeg where
  startMs : Nat
  durMs : Nat
  z : Poly          -- altitude on [0,1]
  x0 : Rat
  y0 : Rat
  z0 : Rat
  xe : Rat
  ye : Rat
  ze : Rat
  deriving Inhabited

def ZSeg.startSec (s : ZSeg) : Rat := (s.startMs : Rat) / 1000
def ZSeg.durSec (s : ZSeg) : Rat := (s.durMs : Rat) / 1000
def ZSeg.endSec (s : ZSeg) : Rat := ((s.startMs + s.durMs : Nat) : Rat) / 1000

/-- the segments as the statistics pass walks them -/
def zsegs : List SegSpec → Vec4 → Nat → List ZSeg
  | [], _, _ => []
  | s :: rest, start, T =>
    let e := s.endPt start
    { startMs := T, durMs := s.durMs, z := makeBezier 1 s.ctrl.z,
      x0 := s.ctrl.x.headD start.x, y0 := s.ctrl.y.headD start.y, z0 := s.ctrl.z.headD start.z,
      xe := e.x, ye := e.y, ze := e.z } :: zsegs rest e (T + s.durMs)

/-- what `sb_poly_touches(poly, value, &t)` answers, refined to the first touching point by
`sb_i_get_first_touching_point` in the takeoff calculation: `some t` or `none` -/
abbrev Touch := Poly → Rat → Option Rat

/-! ### takeoff -/

/-- the main loop's takeoff part: the first segment whose altitude touches the target wins -/
def firstTouch (ρ : Touch) (target : Rat) : List ZSeg → Option (ZSeg × Rat)
  | [] => none
  | s :: rest =>
    match ρ s.z target with
    | some u => some (s, u)
    | none => firstTouch ρ target rest

/-- `earliest_above_sec` (none = +infinity) -/
def earliestAbove (ρ : Touch) (segs : List ZSeg) (target : Rat) : Option Rat :=
  (firstTouch ρ target segs).map (fun (s, u) => s.startSec + u * s.durSec)

/-- parameter screening of `sb_trajectory_stats_calculator_run` for the takeoff parameters
(`a` may be +infinity; NaN never compares, so it is screened by `isfinite`) -/
def takeoffParamsValid (h v a : F32) : Bool :=
  (match a with | .fin q => q > 0 | .pinf => true | .ninf => false | .nan => true) &&
  (match v with | .fin q => q > 0 | _ => false) &&
  (match h with | .fin q => q ≥ 0 | _ => false)

/-- `takeoff_time_sec` given the climb time `T` (none = not finite): E - T, or +infinity -/
def takeoffTime (ρ : Touch) (segs : List ZSeg) (z0 h : Rat) (climb : Option Rat) : Option Rat :=
  match earliestAbove ρ segs (z0 + h), climb with
  | some e, some t => some (e - t)
  | _, _ => none

/-! ### landing -/

/-- `sb_i_is_segment_descending_vertically` -/
def isVertical (thr : Rat) (s : ZSeg) : Bool :=
  absR (s.x0 - s.xe) ≤ thr && absR (s.y0 - s.ye) ≤ thr && s.z0 ≥ s.ze

/-- run tracking of the main loop: the current run of vertical segments (empty = `state_valid == 0`) -/
def trackStep (thr : Rat) (run : List ZSeg) (s : ZSeg) : List ZSeg :=
  if isVertical thr s then run ++ [s] else []

def trackRun (thr : Rat) (segs : List ZSeg) : List ZSeg := segs.foldl (trackStep thr) []

/-- the longest run of vertical segments at the end -/
def verticalSuffix (thr : Rat) (segs : List ZSeg) : List ZSeg :=
  (segs.reverse.takeWhile (isVertical thr)).reverse

/-- the walk through the final run: consume whole segments while the descent left to do allows, land inside
the segment where it runs out.  Returns the landing time; `dflt` is what `landing_time_sec` holds so far (the start
of the run, then the end of the last consumed segment that descended).  When the oracle finds no touching point in
the segment where the descent runs out, the point is estimated linearly from the descent left. -/
def walkRun (ρ : Touch) (dflt : Rat) : List ZSeg → Rat → Rat → Rat
  | [], _, _ => dflt
  | s :: rest, altitude, toDescend =>
    let delta := altitude - s.ze
    if delta < 0 then dflt
    else if delta ≤ toDescend then walkRun ρ (if delta > 0 then s.endSec else dflt) rest s.ze (toDescend - delta)
    else
      let u := (ρ s.z (altitude - toDescend)).getD (toDescend / delta)
      s.startSec + u * s.durSec

def totalSec (segs : List ZSeg) : Rat := match segs.getLast? with
  | none => 0
  | some s => s.endSec

/-- `landing_time_sec` of the statistics pass for valid settings -/
def landingTime (ρ : Touch) (segs : List ZSeg) (pd thr : Rat) : Rat :=
  let run := trackRun thr segs
  match run with
  | [] => totalSec segs
  | first :: _ =>
    let startAlt := first.z0
    let endAlt := (run.getLast?.map (·.ze)).getD startAlt
    let toDescend := startAlt - (endAlt + pd)
    if toDescend > 0 then walkRun ρ first.startSec run startAlt toDescend
    else first.startSec

/-- `sb_trajectory_propose_landing_time_sec`: screening, then the pass (`pd`, `thr` as floats) -/
def proposeLanding (ρ : Touch) (segs : List ZSeg) (pd thr : F32) : Rat :=
  match pd, thr with
  | .fin p, .fin t =>
    if p ≤ pow2 (-126) then totalSec segs
    else landingTime ρ segs p (if t < 0 then 0 else t)
  | _, _ => totalSec segs

/-! ### the exact root oracle for constant and linear altitude (`sb_i_poly_touches_1d/2d`) -/

def touchesLinear (p : Poly) (v : Rat) : Option Rat :=
  match p with
  | [] => if v = 0 then some 0 else none
  | [c] => if v = c then some 0 else none
  | b :: a :: _ =>
    if a = 0 then (if v = b then some 0 else none)
    else if a > 0 ∧ v ≥ b ∧ v ≤ a + b then some ((v - b) / a)
    else if a < 0 ∧ v ≥ a + b ∧ v ≤ b then some ((v - b) / a)
    else none

/-! ### bounding box -/

/-- `sb_poly_get_extrema` for at most two coefficients (constant, linear): exact -/
def extremaLinear (p : Poly) : Rat × Rat :=
  match p with
  | [] => (0, 0)
  | [c] => (c, c)
  | b :: a :: _ => if a > 0 then (b, b + a) else (b + a, b)

/-- one `CHECK_DIM` step of `sb_trajectory_get_axis_aligned_bounding_box`; `none` is the initial [+inf, -inf] -/
def mergeIv (acc : Option (Rat × Rat)) (iv : Rat × Rat) : Option (Rat × Rat) :=
  match acc with
  | none => some iv
  | some (lo, hi) => some (min lo iv.1, max hi iv.2)

def mergeAll (ivs : List (Rat × Rat)) : Option (Rat × Rat) := ivs.foldl mergeIv none

end Sb.Stats
