/-
Model of src/yaw_control/yaw_control.c : header, setpoint chain, cursor, yaw / yaw-rate queries.
-/
import Sb.Model.Trajectory

namespace Sb.Yaw
open Sb.Parsing Sb.Traj

structure Ctrl where
  buf : Bytes
  autoYaw : Bool
  yawOffsetDdeg : Int
  numDeltas : Nat
  headerLength : Nat
  deriving Inhabited

def headerSize : Nat := 3

/-- `sb_i_yaw_control_init_from_bytes` + `sb_i_yaw_control_parse_header`; a block shorter than
its 3-byte header is rejected -/
def init (buf : Bytes) : R Ctrl :=
  if buf.length < headerSize then .error .eparse
  else do
    let b0 ← rd buf 0
    let (off, o) ← parseI16 buf 1
    pure { buf := buf, autoYaw := b0 &&& 0x01 != 0, yawOffsetDdeg := off,
           numDeltas := (buf.length - o) / Gen.yawSizeOfDelta, headerLength := o }

structure Setpoint where
  startOff : Nat
  length : Nat
  startMs : Nat
  endMs : Nat
  durMs : Nat
  startSec : Rat
  endSec : Option Rat
  durSec : Option Rat
  startYawDdeg : Int        -- int32 in C; see `Sb.C10.ddeg_in_range`
  changeDdeg : Int
  endYawDdeg : Int
  deriving DecidableEq, Inhabited

/-- `start_yaw_ddeg + yaw_change_ddeg` in `int32_t`: signed overflow is undefined behaviour -/
def addI32 (a b : Int) : R Int :=
  let s := a + b
  if -2147483648 ≤ s ∧ s ≤ 2147483647 then .ok s else .error .fault

/-- `sb_i_yaw_player_build_current_setpoint` -/
def buildSetpoint (sec : Nat → Rat) (c : Ctrl) (offset startMs : Nat) (startYaw : Int) : R Setpoint :=
  let terminal : Setpoint :=
    { startOff := offset, length := 0, startMs := startMs, endMs := 4294967295,
      durMs := (4294967295 - startMs) % 65536, startSec := sec startMs, endSec := none, durSec := none,
      startYawDdeg := startYaw, changeDdeg := 0, endYawDdeg := startYaw }
  -- a setpoint that does not fit into the block ends the list
  if offset + Gen.yawSizeOfDelta > c.buf.length then .ok terminal
  else do
    let (dur, o) ← parseU16 c.buf offset
    let (chg, o) ← parseI16 c.buf o
    let endMs := u32 (startMs + dur)
    let endYaw ← addI32 startYaw chg
    pure { startOff := offset, length := o - offset, startMs := startMs, endMs := endMs, durMs := dur,
           startSec := sec startMs, endSec := some (sec endMs), durSec := some (sec dur),
           startYawDdeg := startYaw, changeDdeg := chg, endYawDdeg := endYaw }

structure Player where
  ctrl : Ctrl
  cur : Setpoint
  deriving Inhabited

def rewind (sec : Nat → Rat) (c : Ctrl) : R Player := do
  let s ← buildSetpoint sec c c.headerLength 0 c.yawOffsetDdeg
  pure ⟨c, s⟩

def next (sec : Nat → Rat) (p : Player) : R Player := do
  let s ← buildSetpoint sec p.ctrl (p.cur.startOff + p.cur.length) p.cur.endMs p.cur.endYawDdeg
  pure ⟨p.ctrl, s⟩

def Player.hasMore (p : Player) : Bool := p.cur.length > 0

def seekLoop (sec : Nat → Rat) (t : QTime) : Nat → Player → R Player
  | 0, _ => .error .fault
  | fuel + 1, p =>
    if gtQ p.cur.startSec t then do
      let p' ← rewind sec p.ctrl
      seekLoop sec t fuel p'
    else if endLt p.cur.endSec t then do
      let p' ← next sec p
      seekLoop sec t fuel p'
    else .ok p

def relT (s : Setpoint) (t : QTime) : Rat :=
  match t with
  | .fin q =>
    match s.durSec with
    | some d => if absR d > 1 / 1000000 then (q - s.startSec) / d else 1 / 2
    | none => 0
  | _ => 1

def seekFuel (c : Ctrl) : Nat := c.buf.length + 3

def seek (sec : Nat → Rat) (p : Player) (t : QTime) : R (Player × Rat) := do
  let p' ← seekLoop sec t (seekFuel p.ctrl) p
  pure (p', relT p'.cur t)

/-- `sb_yaw_player_get_yaw_at` : start_yaw_deg + yaw_change_deg * rel_t, in degrees -/
def yawAt (sec : Nat → Rat) (p : Player) (t : QTime) : R (Player × Rat) := do
  let (p', r) ← seek sec p t
  pure (p', (p'.cur.startYawDdeg : Rat) / 10 + (p'.cur.changeDdeg : Rat) / 10 * r)

/-- `sb_yaw_player_get_yaw_rate_at`; `none` = +∞ (zero-duration setpoint) -/
def yawRateAt (sec : Nat → Rat) (p : Player) (t : QTime) : R (Player × Option Rat) := do
  let (p', _) ← seek sec p t
  let rate : Option Rat :=
    match p'.cur.durSec with
    | some d => if d = 0 then none else some ((p'.cur.changeDdeg : Rat) / 10 / d)
    | none => some 0            -- change / inf
  pure (p', rate)

def durLoop (sec : Nat → Rat) : Nat → Player → Nat → R (Player × Nat)
  | 0, _, _ => .error .fault
  | fuel + 1, p, acc =>
    if p.hasMore then do
      let p' ← next sec p
      durLoop sec fuel p' (u32 (acc + p.cur.durMs))
    else .ok (p, acc)

def totalDurationMsec (sec : Nat → Rat) (p : Player) : R (Player × Nat) := do
  let p0 ← rewind sec p.ctrl
  durLoop sec (seekFuel p.ctrl) p0 0

end Sb.Yaw
