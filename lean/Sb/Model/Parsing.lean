/-
Model of src/parsing.c : little-endian integer codecs and the variable-length unsigned integer.
Each function follows the C function of the same name; the C `size_t* offset` in/out
parameter becomes an extra component of the result.
-/
import Sb.Model.Basic

namespace Sb.Parsing

/-- `sb_parse_uint16` : returns (value, new offset). -/
def parseU16 (b : Bytes) (off : Nat) : R (Nat × Nat) := do
  let hi ← rd b (off + 1)
  let lo ← rd b off
  pure ((hi <<< 8) + lo, off + 2)

/-- `sb_parse_int16` -/
def parseI16 (b : Bytes) (off : Nat) : R (Int × Nat) := do
  let (v, o) ← parseU16 b off
  pure (toInt16 v, o)

/-- `sb_parse_uint32` -/
def parseU32 (b : Bytes) (off : Nat) : R (Nat × Nat) := do
  let b3 ← rd b (off + 3)
  let b2 ← rd b (off + 2)
  let b1 ← rd b (off + 1)
  let b0 ← rd b off
  pure ((((((b3 <<< 8) + b2) <<< 8) + b1) <<< 8) + b0, off + 4)

def parseI32 (b : Bytes) (off : Nat) : R (Int × Nat) := do
  let (v, o) ← parseU32 b off
  pure (toInt32 v, o)

/-- `sb_write_uint16` on a value already reduced to 16 bits: the two bytes written. -/
def writeU16 (v : Nat) : List UInt8 := [UInt8.ofNat (v % 256), UInt8.ofNat ((v / 256) % 256)]

/-- `sb_write_uint32` -/
def writeU32 (v : Nat) : List UInt8 :=
  [UInt8.ofNat (v % 256), UInt8.ofNat ((v / 256) % 256),
   UInt8.ofNat ((v / 65536) % 256), UInt8.ofNat ((v / 16777216) % 256)]

/-- C conversion of a signed value to its unsigned 16-bit representation -/
def ofInt16 (v : Int) : Nat := (v % 65536).toNat
def ofInt32 (v : Int) : Nat := (v % 4294967296).toNat

def writeI16 (v : Int) : List UInt8 := writeU16 (ofInt16 v)
def writeI32 (v : Int) : List UInt8 := writeU32 (ofInt32 v)

/-- Outcome of `sb_parse_varuint32`: return code class, value (when ok), final offset. -/
inductive VarRes where
  | ok (value : Nat) (off : Nat)
  | overflow (off : Nat)
  | parse (off : Nat)
  | fault
  deriving DecidableEq, Repr, Inhabited

/-- second loop of `sb_parse_varuint32`: skip the rest of an over-long encoding -/
def varuintSkip (b : Bytes) (n : Nat) (off : Nat) (byte : Nat) : VarRes :=
  if byte &&& 0x80 = 0 then .overflow off
  else if h : off ≥ n then .parse off
  else
    match rd b off with
    | .error _ => .fault
    | .ok byte' => varuintSkip b n (off + 1) byte'
termination_by n - off
decreasing_by omega

/-- first loop of `sb_parse_varuint32` -/
def varuintLoop (b : Bytes) (n : Nat) (off : Nat) (value numBits bitsLeft : Nat) : VarRes :=
  if h : off ≥ n then .parse off
  else
    match rd b off with
    | .error _ => .fault
    | .ok byte =>
      let off' := off + 1
      if bitsLeft < 7 ∧ (byte >>> bitsLeft) > 0 then
        varuintSkip b n off' byte
      else
        let value' := (value + ((byte &&& 0x7f) <<< numBits)) % 4294967296
        if byte &&& 0x80 = 0 then .ok value' off'
        else
          let numBits' := numBits + 7
          let bitsLeft' := bitsLeft - 7
          if numBits' > 31 then varuintSkip b n off' byte
          else varuintLoop b n off' value' numBits' bitsLeft'
termination_by n - off
decreasing_by omega

/-- `sb_parse_varuint32(buf, num_bytes, &offset, &result)` -/
def parseVaruint32 (b : Bytes) (n : Nat) (off : Nat) : VarRes :=
  varuintLoop b n off 0 0 32

/-- view as `R` for the callers that use `SB_CHECK` -/
def VarRes.toR : VarRes → R (Nat × Nat)
  | .ok v o => .ok (v, o)
  | .overflow _ => .error .eoverflow
  | .parse _ => .error .eparse
  | .fault => .error .fault

end Sb.Parsing
