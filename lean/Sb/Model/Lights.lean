/-
Model of the light-program bytecode player: src/lights/executor.cpp (`CommandExecutor`),
bytecode_player.h (`BytecodePlayer::seek`), bytecode_array.hpp, loop_stack.cpp, transition.h,
and `sb_rgb_color_linear_interpolation` of colors.c.

`unsigned long` is 64 bits: wrap-around is modelled (`% 2^64`).  Conversions between integers
and `float` go through `roundF32`; conversions back saturate (as the code does).
No signal source is attached (the C API offers no way to attach one): channel commands give black,
triggers never fire.
-/
import Sb.Model.Basic

namespace Sb.Lights

abbrev Color := Nat × Nat × Nat
def black : Color := (0, 0, 0)
def white : Color := (255, 255, 255)

def W : Nat := 18446744073709551616   -- 2^64
def u64 (n : Nat) : Nat := n % W
def subU64 (a b : Nat) : Nat := (a + W - b % W) % W

structure LoopItem where
  start : Nat
  itersLeftPlusOne : Nat
  deriving DecidableEq, Repr, Inhabited

structure Exec where
  prog : Bytes
  size : Nat                 -- `uint16_t m_size`
  pc : Nat := 0
  loops : List LoopItem := []          -- top of the stack first
  color : Color := black
  pyro : Nat := 0
  ended : Bool := true
  cumulative : Nat := 0
  cmdStart : Nat := 0
  lastReset : Nat := 0
  nextWakeup : Nat := 0
  resetFlag : Bool := true
  trActive : Bool := false
  trStart : Nat := 0
  trDuration : Nat := 0
  startColor : Color := black
  endColor : Color := black
  deriving DecidableEq, Inhabited

/-- `unsigned long` → `float` → integer-valued rational -/
def ulToF (n : Nat) : Rat := roundF32 (n : Rat)
/-- `long` → `float` -/
def lToF (n : Nat) : Rat := if n < W / 2 then roundF32 (n : Rat) else roundF32 ((n : Rat) - (W : Rat))

/-- float (integer-valued here) → `unsigned long`, saturating at 0 and `ULONG_MAX` -/
def fToUl (q : Rat) : Nat :=
  if q ≤ 0 then 0 else if q ≥ (W : Rat) then W - 1 else q.floor.toNat
/-- float → `signed long` (returned as its 64-bit pattern), saturating at `LONG_MIN` / `LONG_MAX` -/
def fToL (q : Rat) : Nat :=
  if q ≥ ((W / 2 : Nat) : Rat) then W / 2 - 1
  else if q ≤ -((W / 2 : Nat) : Rat) then W / 2
  else (if q < 0 then (W - (-q).floor.toNat) % W else q.floor.toNat)

/-- `absoluteToInternalTime` : `round((msSigned - m_lastClockResetTime) / 1.0f)` as `signed long` -/
def absToInternal (e : Exec) (ms : Nat) : Nat := fToL (ulToF (subU64 ms e.lastReset))

/-- `internalToAbsoluteTime(long ms)` : `round(m_lastClockResetTime + ms * 1.0f)` as `unsigned long` -/
def internalToAbs (e : Exec) (ms : Nat) : Nat := fToUl (roundF32 (ulToF e.lastReset + lToF ms))

/-- `ArrayBytecodeStore::next` (never suspended) -/
def nextByte (e : Exec) : Nat × Exec :=
  if e.pc < e.size then
    match e.prog[e.pc]? with
    | some b => (b.toNat, { e with pc := e.pc + 1 })
    | none => (0, e)          -- unreachable: size ≤ prog.length
  else (Gen.CMD_END, e)

/-- `nextVarint` : bits at positions ≥ 64 are dropped (the shift stops growing there) -/
def nextVarintLoop : Nat → Exec → Nat → Nat → Nat × Exec
  | 0, e, result, _ => (result, e)
  | fuel + 1, e, result, shift =>
    let (b, e1) := nextByte e
    let (result', shift') :=
      if shift < 64 then ((result ||| ((b &&& 0x7f) <<< shift)) % W, shift + 7) else (result, shift)
    if b &&& 0x80 ≠ 0 then nextVarintLoop fuel e1 result' shift' else (result', e1)

def nextVarint (e : Exec) : Nat × Exec := nextVarintLoop (e.size + 2) e 0 0

/-- `delayExecutionUntilAbsoluteTime` -/
def delayUntilAbs (e : Exec) (ms : Nat) : Exec := { e with nextWakeup := max e.nextWakeup ms }

/-- `delayExecutionUntil` -/
def delayUntil (e : Exec) (ms : Nat) : Exec := delayUntilAbs e (internalToAbs e ms)

/-- `handleDelayByte` -/
def handleDelayByte (e : Exec) : Exec :=
  let (v, e1) := nextVarint e
  let duration := u64 (v * Gen.msPerUnit)
  let e2 := { e1 with cumulative := u64 (e1.cumulative + duration) }
  delayUntil e2 e2.cumulative

def setColorAndResetTransition (e : Exec) (c : Color) : Exec := { e with color := c, startColor := c }

/-- `setClockOriginToCurrentTimestamp` -/
def setClockOrigin (e : Exec) (ts : Nat) : Exec :=
  let e1 := { e with lastReset := ts }
  let n := absToInternal e1 ts
  { e1 with cumulative := if n ≥ W / 2 then 0 else n }

/-- `sb_rgb_color_linear_interpolation` on one channel: `clamp(first + (second - first) * ratio, 0, 255)`
truncated to `uint8_t`, in exact arithmetic -/
def lerpChan (f s : Nat) (ratio : Rat) : Nat :=
  let v : Rat := (f : Rat) + ((s : Rat) - (f : Rat)) * ratio
  if v < 0 then 0 else if v > 255 then 255 else v.floor.toNat

def lerp (a b : Color) (ratio : Rat) : Color :=
  (lerpChan a.1 b.1 ratio, lerpChan a.2.1 b.2.1 ratio, lerpChan a.2.2 b.2.2 ratio)

/-- `Transition::progressPreEasing` (exact; the C value is this rounded to binary32) -/
def progress (e : Exec) (clock : Nat) : Rat :=
  if clock < e.trStart then 0
  else if e.trDuration = 0 then 1
  else
    let r : Rat := ulToF (clock - e.trStart) / ulToF e.trDuration
    if r > 1 then 1 else r

/-- `Transition::step` with the executor's handler: sets the colour, returns whether still active -/
def transitionStep (e : Exec) (clock : Nat) : Exec :=
  let p := progress e clock
  { e with color := lerp e.startColor e.endColor p, trActive := decide (p < 1) }

/-- `fadeColorOfLEDStrip` -/
def fadeTo (e : Exec) (c : Color) : Exec :=
  let now := e.cmdStart
  let e1 := handleDelayByte e
  let actual := subU64 e1.nextWakeup now
  let e2 := { e1 with endColor := c, trStart := e1.cmdStart, trDuration := actual, trActive := true }
  let e3 := transitionStep e2 now
  -- a fade that completes immediately leaves its target as the start colour of the next fade
  if e3.trActive then e3 else { e3 with startColor := e3.endColor }

def setTo (e : Exec) (c : Color) : Exec := setColorAndResetTransition (handleDelayByte e) c

/-- `LoopStack::begin` -/
def loopBegin (e : Exec) (loc iters : Nat) : Exec :=
  if e.loops.length ≥ Gen.maxLoopDepth then e
  else { e with loops := { start := loc, itersLeftPlusOne := iters } :: e.loops }

/-- `LoopStack::end` + seek -/
def loopEnd (e : Exec) : Exec :=
  match e.loops with
  | [] => e
  | top :: rest =>
    if top.itersLeftPlusOne = 0 then { e with pc := top.start }
    else if top.itersLeftPlusOne = 1 then { e with loops := rest }
    else { e with loops := { top with itersLeftPlusOne := top.itersLeftPlusOne - 1 } :: rest, pc := top.start }

def next3 (e : Exec) : (Nat × Nat × Nat) × Exec :=
  let (a, e1) := nextByte e
  let (b, e2) := nextByte e1
  let (c, e3) := nextByte e2
  ((a, b, c), e3)

/-- `executeNextCommand` -/
def execCommand (e : Exec) : Exec :=
  if e.ended then { e with nextWakeup := u64 (e.cmdStart + 60000) }
  else
    let (code, e) := nextByte e
    if code = Gen.CMD_END then { e with ended := true }
    else if code = Gen.CMD_NOP then e
    else if code = Gen.CMD_SLEEP then handleDelayByte e
    else if code = Gen.CMD_WAIT_UNTIL then
      let (v, e1) := nextVarint e
      let e2 := delayUntil e1 (u64 (v * Gen.msPerUnitWaitUntil))
      { e2 with cumulative := absToInternal e2 e2.nextWakeup }
    else if code = Gen.CMD_SET_COLOR then
      let (c, e1) := next3 e
      setTo e1 c
    else if code = Gen.CMD_SET_GRAY then
      let (g, e1) := nextByte e
      setTo e1 (g, g, g)
    else if code = Gen.CMD_SET_BLACK then setTo e black
    else if code = Gen.CMD_SET_WHITE then setTo e white
    else if code = Gen.CMD_FADE_TO_COLOR then
      let (c, e1) := next3 e
      fadeTo e1 c
    else if code = Gen.CMD_FADE_TO_GRAY then
      let (g, e1) := nextByte e
      fadeTo e1 (g, g, g)
    else if code = Gen.CMD_FADE_TO_BLACK then fadeTo e black
    else if code = Gen.CMD_FADE_TO_WHITE then fadeTo e white
    else if code = Gen.CMD_LOOP_BEGIN then
      let (iters, e1) := nextByte e
      (loopBegin e1 e1.pc iters)
    else if code = Gen.CMD_LOOP_END then (loopEnd e)
    else if code = Gen.CMD_RESET_CLOCK then setClockOrigin e e.cmdStart
    else if code = Gen.CMD_SET_COLOR_FROM_CHANNELS then
      let (_, e1) := next3 e
      setTo e1 black
    else if code = Gen.CMD_FADE_TO_COLOR_FROM_CHANNELS then
      let (_, e1) := next3 e
      fadeTo e1 black
    else if code = Gen.CMD_JUMP then
      let (addr, e1) := nextVarint e
      if addr < Gen.addressBound then { e1 with pc := addr, loops := [] }
      else { e1 with ended := true }
    else if code = Gen.CMD_TRIGGERED_JUMP then
      let (params, e1) := nextByte e
      let needAddr := (params &&& 0x10 ≠ 0) ∨ (params &&& 0x20 ≠ 0)
      if needAddr then
        let (addr, e2) := nextVarint e1
        if addr < Gen.addressBound then e2 else { e2 with ended := true }
      else e1
    else if code = Gen.CMD_SET_PYRO then
      let (m, e1) := nextByte e
      if m &&& 128 ≠ 0 then { e1 with pyro := (e1.pyro ||| (m &&& 127)) % 256 }
      else { e1 with pyro := e1.pyro &&& ((255 - ((m ||| 128) % 256)) % 256) }
    else if code = Gen.CMD_SET_PYRO_ALL then
      let (v, e1) := nextByte e
      { e1 with pyro := v &&& 127 }
    else { e with ended := true }

/-- `CommandExecutor::step(now)`; the returned executor carries the next wake-up time -/
def step (e : Exec) (now : Nat) : Exec :=
  let e1 :=
    if e.resetFlag then
      { (setColorAndResetTransition (setClockOrigin e now) black) with resetFlag := false, nextWakeup := now }
    else e
  if e1.ended then { e1 with nextWakeup := u64 (now + 60000) }
  else
    let e2 :=
      if e1.trActive then
        let e' := transitionStep e1 now
        if e'.trActive then e' else { e' with startColor := e'.endColor }
      else e1
    if now ≥ e2.nextWakeup then execCommand { e2 with cmdStart := now } else e2

/-- `CommandExecutor::rewind` -/
def rewindExec (e : Exec) : Exec :=
  { e with pc := 0, ended := decide (e.size = 0), loops := [], trActive := false, pyro := 0, color := black,
           resetFlag := true }

structure Player where
  exec : Exec
  current : Nat := 0
  next : Nat := 0
  deriving DecidableEq, Inhabited

/-- the state right after `sb_light_player_init`: executor constructed, `step(0)` without a
store, then `setBytecodeStore` (= rewind) -/
def Player.fresh (prog : Bytes) : Player :=
  let e0 : Exec := { prog := prog, size := prog.length % 65536 }
  -- constructor step(0) with no store: ended, origin 0
  let e1 : Exec := { e0 with lastReset := 0, cumulative := 0, resetFlag := false, nextWakeup := 60000 }
  { exec := rewindExec e1 }

/-- the `while (target > m_nextTimestamp)` loop of `BytecodePlayer::seek`; running out of fuel = hang -/
def seekLoop (target : Nat) : Nat → Player → R Player
  | 0, _ => .error .fault
  | fuel + 1, p =>
    if target > p.next then
      let e := step p.exec p.next
      let proposal := if e.nextWakeup < p.next then p.next + 1 else e.nextWakeup
      seekLoop target fuel { exec := e, current := p.next, next := proposal }
    else .ok p

/-- `BytecodePlayer::seek(target)`; `fuel` bounds the number of executor steps -/
def Player.seek (p : Player) (target : Nat) (fuel : Nat) : R Player := do
  let p1 := if target < p.current then { exec := rewindExec p.exec, current := 0, next := 0 } else p
  let p2 ← seekLoop target fuel p1
  let e := step p2.exec target
  pure { exec := e, current := target, next := e.nextWakeup }

def Player.pyroChannels (p : Player) : Nat := p.exec.pyro &&& ((1 <<< Gen.numPyroChannels) - 1)

end Sb.Lights
