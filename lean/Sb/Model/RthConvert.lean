/-
Model of `sb_trajectory_init_from_rth_plan_entry` (src/rth_plan/rth_plan.c): scale selection,
the phases (hold until start + pre-delay, optional neck, action leg, post-delay hold) through the
trajectory builder.  Float steps are modelled exactly (`roundF32`).
-/
import Sb.Model.Builder
import Sb.Model.Utils

namespace Sb.RthConvert
open Sb.Builder Sb.Poly Sb.Utils

/-- an RTH plan entry as the converter receives it (all fields are binary32 values) -/
structure EntryF where
  time : F32
  action : Nat
  duration : F32
  target : Rat × Rat
  targetAlt : Rat
  preDelay : F32
  postDelay : F32
  preNeck : Rat
  preNeckDur : F32
  deriving Inhabited

def gt0 : F32 → Bool
  | .fin q => q > 0
  | .pinf => true
  | _ => false

def ltZeroF : F32 → Bool
  | .fin q => q < 0
  | .ninf => true
  | _ => false

/-- float addition of two binary32 values -/
def addF : F32 → F32 → F32
  | .fin a, .fin b => .fin (Utils.rf (a + b))
  | .nan, _ => .nan
  | _, .nan => .nan
  | .pinf, .ninf => .nan
  | .ninf, .pinf => .nan
  | .pinf, _ => .pinf
  | _, .pinf => .pinf
  | .ninf, _ => .ninf
  | _, .ninf => .ninf

def nonZeroF : F32 → Bool
  | .fin q => q ≠ 0
  | _ => true

/-- the scale needed for all coordinates involved -/
def chooseScale (e : EntryF) (start : Vec4) : R Nat := do
  let s ← scaleUpdate 1 (.fin start.x) (.fin start.y) (.fin start.z)
  let s ← (if e.action = 3 then scaleUpdate s (.fin 0) (.fin 0) (.fin (Utils.rf (start.z + e.preNeck))) else pure s)
  let s ← (if e.action = 2 ∨ e.action = 3 then scaleUpdate s (.fin e.target.1) (.fin e.target.2) (.fin 0) else pure s)
  let s ← (if e.action = 3 then scaleUpdate s (.fin 0) (.fin 0) (.fin e.targetAlt) else pure s)
  pure s

/-- the phases of the generated trajectory, in the order the code issues them; durations are
still in (float) seconds: each is converted to whole milliseconds right before its builder call -/
inductive Phase where
  | hold (sec : F32)
  | line (target : Vec4) (sec : F32)
  | invalidAction
  deriving Inhabited

/-- start time of the entry, clamped at zero -/
def startTime (e : EntryF) : F32 := if ltZeroF e.time then .fin 0 else e.time

def hasNeck (e : EntryF) : Bool := e.preNeck ≠ 0 || nonZeroF e.preNeckDur

/-- the point after the neck (or the start when there is none) -/
def afterNeck (e : EntryF) (start : Vec4) : Vec4 :=
  if hasNeck e then { start with z := Utils.rf (start.z + e.preNeck) } else start

/-- the phase list of an entry: hold until the entry time plus pre-delay; the neck when given; the
action leg (none for a landing); the post-delay hold when positive -/
def phases (e : EntryF) (start : Vec4) : List Phase :=
  [Phase.hold (addF (startTime e) (if gt0 e.preDelay then e.preDelay else .fin 0))] ++
  (if hasNeck e then [Phase.line (afterNeck e start) e.preNeckDur] else []) ++
  (if e.action = 1 then []
   else if e.action = 2 then [Phase.line { afterNeck e start with x := e.target.1, y := e.target.2 } e.duration]
   else if e.action = 3 then
     [Phase.line { afterNeck e start with x := e.target.1, y := e.target.2, z := e.targetAlt } e.duration]
   else [Phase.invalidAction]) ++
  (if gt0 e.postDelay then [Phase.hold e.postDelay] else [])

/-- run the phases through the builder; each duration is converted when its phase is reached -/
def runPhases (b : Builder) : List Phase → R Builder
  | [] => .ok b
  | .hold sec :: rest => do
    let ms ← msecFromSeconds sec
    let b1 ← holdFor b ms
    runPhases b1 rest
  | .line t sec :: rest => do
    let ms ← msecFromSeconds sec
    let b1 ← appendLine b t ms
    runPhases b1 rest
  | .invalidAction :: _ => .error .einval

/-- `sb_trajectory_init_from_rth_plan_entry` : the bytes of the resulting trajectory block.
(The C code computes the first duration before creating the builder; an error there is reported
before the scale could make `builder_init` fail, which it cannot: the chosen scale is in 1..127.) -/
def convert (e : EntryF) (start : Vec4) : R Bytes := do
  let scale ← chooseScale e start
  let _ ← msecFromSeconds (addF (startTime e) (if gt0 e.preDelay then e.preDelay else .fin 0))
  let b ← Builder.init scale 0
  let b ← setStart b start
  let b ← runPhases b (phases e start)
  pure (finish b).1

end Sb.RthConvert
