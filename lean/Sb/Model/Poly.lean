/-
Model of src/trajectory/poly.c over exact rationals.  A polynomial is the list of its
coefficients, constant term first (`coeffs[0..num_coeffs-1]`).
-/
import Sb.Model.Basic

namespace Sb.Poly

abbrev Poly := List Rat

/-- `sb_poly_eval` (Horner, from the highest coefficient down) -/
def eval (p : Poly) (t : Rat) : Rat := p.foldr (fun c acc => acc * t + c) 0

def makeConstant (x : Rat) : Poly := [x]
def makeZero : Poly := [0]

/-- FLT_EPSILON = 2^-23 -/
def fltEpsilon : Rat := 1 / 8388608

/-- `sb_poly_make_linear` -/
def makeLinear (duration x0 x1 : Rat) : Poly :=
  if absR duration ≥ fltEpsilon then [x0, (x1 - x0) / duration] else [(x0 + x1) / 2, 0]

def fac (i : Nat) : Rat := ((Gen.facs.getD i 1 : Nat) : Rat)

/-- `sb_poly_stretch` : coefficient i is multiplied by (1/factor)^i -/
def stretchAux (inv : Rat) : Poly → Rat → Poly
  | [], _ => []
  | c :: cs, scale => c * scale :: stretchAux inv cs (scale * inv)

def stretch (p : Poly) (factor : Rat) : Poly :=
  match p with
  | [] => []
  | c :: cs => c :: stretchAux (1 / factor) cs (1 / factor)

/-- inner loop of `sb_poly_make_bezier`: Σ_{i≤j} sign_i · xs[i] / facs[i] / facs[j-i],
sign starting at (-1)^j and alternating -/
def bezierInner (xs : List Rat) (j : Nat) : Rat :=
  (List.range (j + 1)).foldl
    (fun acc i =>
      let sign : Rat := if (j + i) % 2 = 0 then 1 else -1
      acc + sign * xs.getD i 0 / fac i / fac (j - i)) 0

/-- `sb_poly_make_bezier(poly, duration, xs, num_points)` -/
def makeBezier (duration : Rat) (xs : List Rat) : Poly :=
  match xs with
  | [] => makeZero
  | [x] => makeConstant x
  | [x0, x1] => makeLinear duration x0 x1
  | _ =>
    let n := (min xs.length Gen.maxPolyCoeffs) - 1
    let raw := (List.range (n + 1)).map (fun j => bezierInner xs j * fac n / fac (n - j))
    stretch raw duration

/-- `sb_poly_deriv` -/
def derivAux : Poly → Nat → Poly
  | [], _ => []
  | c :: cs, i => (i : Rat) * c :: derivAux cs (i + 1)

def deriv (p : Poly) : Poly :=
  match p with
  | [] => makeZero
  | [_] => makeZero
  | _ :: cs => derivAux cs 1

/-- `sb_poly_scale` -/
def scale (p : Poly) (k : Rat) : Poly := p.map (· * k)

/-- `sb_poly_add_constant` -/
def addConstant (p : Poly) (c : Rat) : Poly :=
  match p with
  | [] => [c]
  | a :: as => (a + c) :: as

/-- `sb_poly_get_degree` -/
def getDegree (p : Poly) : Nat := if p.length ≥ 1 then p.length - 1 else 0

structure Vec4 where
  x : Rat
  y : Rat
  z : Rat
  yaw : Rat
  deriving DecidableEq, Inhabited

structure Poly4 where
  x : Poly
  y : Poly
  z : Poly
  yaw : Poly
  deriving DecidableEq, Inhabited

def Poly4.eval (p : Poly4) (t : Rat) : Vec4 := ⟨Poly.eval p.x t, Poly.eval p.y t, Poly.eval p.z t, Poly.eval p.yaw t⟩
def Poly4.const (v : Vec4) : Poly4 := ⟨[v.x], [v.y], [v.z], [v.yaw]⟩
def Poly4.deriv (p : Poly4) : Poly4 := ⟨Poly.deriv p.x, Poly.deriv p.y, Poly.deriv p.z, Poly.deriv p.yaw⟩
def Poly4.scale (p : Poly4) (k : Rat) : Poly4 := ⟨Poly.scale p.x k, Poly.scale p.y k, Poly.scale p.z k, Poly.scale p.yaw k⟩

end Sb.Poly
