/-
Model of src/rth_plan/rth_plan.c : header, point table, entry scan (`sb_rth_plan_evaluate_at`).
-/
import Sb.Model.Parsing

namespace Sb.Rth
open Sb.Parsing

structure Plan where
  buf : Bytes
  scale : Nat
  numPoints : Nat
  headerLength : Nat
  deriving Inhabited

def headerSize : Nat := 3

/-- `sb_rth_plan_init_from_buffer`; a block shorter than its 3-byte header is rejected -/
def init (buf : Bytes) : R Plan :=
  if buf.length < headerSize then .error .eparse
  else do
    let b0 ← rd buf 0
    let (np, o) ← parseU16 buf 1
    pure { buf := buf, scale := b0 &&& 0x7f, numPoints := np, headerLength := o }

def offsetOfPoint (p : Plan) (i : Nat) : Nat := p.headerLength + i * 4
def entryTableOff (p : Plan) : Nat := offsetOfPoint p p.numPoints

/-- `sb_rth_plan_get_num_entries` -/
def numEntries (p : Plan) : Nat :=
  if entryTableOff p + 2 ≤ p.buf.length then
    match parseU16 p.buf (entryTableOff p) with
    | .ok (n, _) => n
    | .error _ => 0
  else 0

/-- coordinate read with a bounds check (`SB_EPARSE` beyond the buffer) -/
def parseCoord (p : Plan) (off : Nat) : R (Rat × Nat) :=
  if off + 2 > p.buf.length then .error .eparse
  else do
    let (v, o) ← parseI16 p.buf off
    pure ((v : Rat) * (p.scale : Rat), o)

/-- `sb_rth_plan_get_point` -/
def getPoint (p : Plan) (i : Nat) : R (Rat × Rat) :=
  if i ≥ p.numPoints then .error .einval
  else do
    let (x, o) ← parseCoord p (offsetOfPoint p i)
    let (y, _) ← parseCoord p o
    pure (x, y)

/-- `sb_i_rth_plan_parse_duration` -/
def parseDuration (p : Plan) (off : Nat) : R (Rat × Nat) :=
  match parseVaruint32 p.buf p.buf.length off with
  | .ok v o => if v > Gen.rthMaxDuration then .error .eoverflow else .ok ((v : Rat), o)
  | .overflow _ => .error .eoverflow
  | .parse _ => .error .eparse
  | .fault => .error .fault

structure Entry where
  time : F32                  -- `time_sec`
  action : Nat := 1           -- 1 land, 2 go-to keeping altitude, 3 go-to with altitude
  duration : Rat := 0
  target : Rat × Rat := (0, 0)
  targetAlt : Rat := 0
  preDelay : Rat := 0
  postDelay : Rat := 0
  preNeck : Rat := 0
  preNeckDur : Rat := 0
  deriving Inhabited

def hasTarget (a : Nat) : Bool := a == 2 || a == 3
def hasAlt (a : Nat) : Bool := a == 3

/-- `time_s >= time` with `time_s` converted to float -/
def geTime (timeS : Nat) (t : F32) : Bool :=
  match t with
  | .fin q => roundF32 (timeS : Rat) ≥ q
  | .pinf => false
  | .ninf => true
  | .nan => false

def ltZero (t : F32) : Bool :=
  match t with
  | .fin q => q < 0
  | .ninf => true
  | _ => false

/-- flags byte and time difference of an entry: returns (flags, new offset, new cumulative time) -/
def scanHeader (p : Plan) (off timeS : Nat) : R (Nat × Nat × Nat) :=
  if off ≥ p.buf.length then .error .eparse
  else do
    let flags ← rd p.buf off
    let (diff, off') ← (parseVaruint32 p.buf p.buf.length (off + 1)).toR
    if (diff + timeS) % 4294967296 < timeS then .error .eoverflow
    else pure (flags, off', timeS + diff)

/-- the action in force: an encoded 0 means "same as before" -/
def resolveAction (flags prev : Nat) : Nat :=
  if (flags >>> 4) &&& 0x03 = 0 then prev else (flags >>> 4) &&& 0x03

/-- action parameters (only present when the action is given explicitly):
returns (point index, target altitude, neck, neck duration, offset) -/
def scanParams (p : Plan) (flags action off : Nat) (prev : Nat × Rat × Rat × Rat) :
    R (Nat × Rat × Rat × Rat × Nat) :=
  if (flags >>> 4) &&& 0x03 ≠ 0 then do
    let (ptIdx, off) ← (if hasTarget action then (parseVaruint32 p.buf p.buf.length off).toR else pure (0, off))
    let (alt, off) ← (if hasAlt action then parseCoord p off else pure (0, off))
    let (neck, nd, off) ← (if hasAlt action then do
        let (nk, o) ← parseCoord p off
        let (d, o) ← parseDuration p o
        pure (nk, d, o)
      else pure (0, 0, off))
    pure (ptIdx, alt, neck, nd, off)
  else pure (prev.1, prev.2.1, prev.2.2.1, prev.2.2.2, off)

/-- duration and the optional pre/post delays: returns (duration, pre, post, offset) -/
def scanTimes (p : Plan) (flags action off : Nat) : R (Rat × Rat × Rat × Nat) := do
  let (dur, off) ← (if hasTarget action then parseDuration p off else pure (0, off))
  let (pre, off) ← (if flags &&& 0x02 ≠ 0 then parseDuration p off else pure (0, off))
  let (post, off) ← (if flags &&& 0x01 ≠ 0 then parseDuration p off else pure (0, off))
  pure (dur, pre, post, off)

/-- the body of one iteration of the entry loop up to (not including) the final
`if (time_s >= time) break;` : returns the updated (offset, time_s, entry, point index) -/
def scanEntryCore (p : Plan) (off timeS : Nat) (e : Entry) (ptIdx : Nat) :
    R (Nat × Nat × Entry × Nat) := do
  let (flags, off, timeS) ← scanHeader p off timeS
  let action := resolveAction flags e.action
  let (ptIdx, alt, neck, nd, off) ← scanParams p flags action off (ptIdx, e.targetAlt, e.preNeck, e.preNeckDur)
  let (dur, pre, post, off) ← scanTimes p flags action off
  pure (off, timeS,
    { time := .fin (roundF32 (timeS : Rat)), action := action, duration := dur, target := e.target,
      targetAlt := alt, preDelay := pre, postDelay := post, preNeck := neck, preNeckDur := nd }, ptIdx)

/-- one iteration of the entry loop, with the decision to stop (`time_s >= time`) -/
def scanEntry (p : Plan) (t : F32) (off timeS : Nat) (e : Entry) (ptIdx : Nat) :
    R (Nat × Nat × Entry × Nat × Bool) :=
  (scanEntryCore p off timeS e ptIdx).map (fun s => (s.1, s.2.1, s.2.2.1, s.2.2.2, geTime s.2.1 t))

def scanLoop (p : Plan) (t : F32) : Nat → Nat → Nat → Entry → Nat → R (Entry × Nat)
  | 0, _, _, e, ptIdx => .ok (e, ptIdx)
  | n + 1, off, timeS, e, ptIdx => do
    let (off, timeS, e, ptIdx, stop) ← scanEntry p t off timeS e ptIdx
    if stop then pure (e, ptIdx) else scanLoop p t n off timeS e ptIdx

/-- `sb_rth_plan_evaluate_at` -/
def evaluateAt (p : Plan) (t : F32) : R Entry := do
  let e0 : Entry := { time := t }
  let (e, ptIdx) ← (if ltZero t then pure (e0, 0) else scanLoop p t (numEntries p) (entryTableOff p + 2) 0 e0 0)
  if hasTarget e.action then
    let pt ← getPoint p ptIdx
    pure { e with target := pt }
  else pure { e with target := (0, 0) }

end Sb.Rth
