/-
Model of src/formats/binary.c : the show-file container parser, for both backends.

`mem = true`  : `sb_binary_file_parser_init_from_buffer`  (pointer arithmetic on a caller buffer)
`mem = false` : `sb_binary_file_parser_init_from_file`    (read/lseek on a regular file)

The only behavioural difference of the two backends is `seek`: the memory backend refuses
offsets beyond the end (`SB_EREAD`), while `lseek` on a regular file accepts them and the next
`read` returns 0 bytes.
-/
import Sb.Model.Crc

namespace Sb.Container

structure Parser where
  mem : Bool
  data : Bytes
  pos : Nat := 0
  version : Nat := 0
  features : Nat := 0
  startOfFirstBlock : Nat := 0
  curType : Nat := 0
  curLength : Nat := 0
  curStart : Nat := 0
  deriving Repr

/-- `sb_i_binary_file_read`: bytes obtained and the advanced parser -/
def Parser.read (p : Parser) (n : Nat) : Bytes × Parser :=
  let got := (p.data.drop p.pos).take n
  (got, { p with pos := p.pos + got.length })

/-- `sb_i_binary_file_seek` -/
def Parser.seek (p : Parser) (off : Nat) : R Parser :=
  if p.mem ∧ off > p.data.length then .error .eread else .ok { p with pos := off }

/-- `sb_i_binary_file_read_next_block_header` -/
def Parser.readNextBlockHeader (p : Parser) : R Parser :=
  let (t, p1) := p.read 1
  match t with
  | [] => .ok { p1 with curType := 0, curLength := 0, curStart := 0 }
  | ty :: _ =>
    let (l, p2) := p1.read 2
    match l with
    | [l0, l1] =>
      .ok { p2 with curType := ty.toNat, curLength := l0.toNat + (l1.toNat <<< 8), curStart := p2.pos }
    | _ => .error .eread

/-- `sb_binary_file_rewind` -/
def Parser.rewind (p : Parser) : R Parser := do
  let p1 ← p.seek p.startOfFirstBlock
  p1.readNextBlockHeader

def Parser.isCurrentBlockValid (p : Parser) : Bool := p.curType != Gen.SB_BINARY_BLOCK_NONE

/-- `sb_binary_file_seek_to_next_block` -/
def Parser.seekToNextBlock (p : Parser) : R Parser :=
  if !p.isCurrentBlockValid then .error .eread
  else do
    let p1 ← p.seek (p.curStart + p.curLength)
    p1.readNextBlockHeader

def magicBytes : Bytes := Gen.magic.map UInt8.ofNat

/-- the stored checksum: little-endian 32-bit value of four bytes
(the C code assembles it with `|=` and `<<= 8`; on bytes that is the same number) -/
def le32 (bs : Bytes) : BitVec 32 :=
  match bs with
  | [b0, b1, b2, b3] =>
    BitVec.ofNat 32 (b0.toNat + 256 * b1.toNat + 65536 * b2.toNat + 16777216 * b3.toNat)
  | _ => 0

/-- `sb_i_binary_file_parser_init_common` -/
def initCommon (p : Parser) : R Parser :=
  let (m, p1) := p.read 4
  if m.length != 4 then .error .eparse
  else if m != magicBytes then .error .eparse
  else
    let (v, p2) := p1.read 1
    match v with
    | [ver] =>
      if !Gen.versions.contains ver.toNat then .error .eparse
      else
        -- feature byte for version 2
        let featR : R (Nat × Parser) :=
          if ver.toNat = 2 then
            let (f, p3) := p2.read 1
            match f with
            | [fb] => .ok (fb.toNat, p3)
            | _ => .error .eparse
          else .ok (0, p2)
        match featR with
        | .error e => .error e
        | .ok (feat, p3) =>
          let hasCrc := feat &&& Gen.SB_BINARY_FEATURE_CRC32 != 0
          let crcR : R (BitVec 32 × Parser) :=
            if hasCrc then
              let (c, p4) := p3.read 4
              if c.length != 4 then .error .eparse else .ok (le32 c, p4)
            else .ok (0, p3)
          match crcR with
          | .error e => .error e
          | .ok (expected, p4) =>
            let p5 := { p4 with version := ver.toNat, features := feat, startOfFirstBlock := p4.pos }
            if hasCrc ∧ expected != Crc.fileCrc p5.data then .error .ecorrupted
            else p5.rewind
    | _ => .error .eparse

def initFromBuffer (data : Bytes) : R Parser := initCommon { mem := true, data := data }
def initFromFile (data : Bytes) : R Parser := initCommon { mem := false, data := data }
def init (mem : Bool) (data : Bytes) : R Parser := initCommon { mem := mem, data := data }

/-- `sb_binary_file_read_current_block` : the body bytes -/
def Parser.readCurrentBlock (p : Parser) : R (Bytes × Parser) :=
  if !p.isCurrentBlockValid then .error .eread
  else do
    let p1 ← p.seek p.curStart
    let (body, p2) := p1.read p.curLength
    if body.length != p.curLength then .error .eread else pure (body, p2)

/-- `sb_binary_file_read_current_block_ex` : body bytes and whether the storage is owned.
The memory route hands out a view into the caller's buffer; the view must lie inside the buffer
(otherwise every later read of it is out of bounds). -/
def Parser.readCurrentBlockEx (p : Parser) : R (Bytes × Bool × Parser) :=
  if p.mem then
    if p.curStart + p.curLength > p.data.length then .error .eread
    else .ok ((p.data.drop p.curStart).take p.curLength, false, p)
  else do
    let (body, p1) ← p.readCurrentBlock
    pure (body, true, p1)

/-- the `while (1)` of `sb_binary_file_find_first_block_by_type`; `fuel` bounds the number of
blocks visited (each visited block starts at a strictly larger position, see
`Sb.Proofs.Container`). -/
def findLoop (p : Parser) (ty : Nat) : Nat → R Parser
  | 0 => .error .fault
  | fuel + 1 =>
    if !p.isCurrentBlockValid then .error .enoent
    else if p.curType = ty then .ok p
    else
      match p.seekToNextBlock with
      | .error e => .error e
      | .ok p1 => findLoop p1 ty fuel

/-- `sb_binary_file_find_first_block_by_type` -/
def Parser.findFirstBlockByType (p : Parser) (ty : Nat) : R Parser := do
  let p1 ← p.rewind
  findLoop p1 ty (p.data.length + 2)

/-- Walk over all blocks with `seek_to_next_block`, reading each body with
`read_current_block`; result = list of (type, body or error code) and the terminating rc. -/
def walkLoop (p : Parser) : Nat → List (Nat × Nat × R Bytes) × Nat
  | 0 => ([], Err.fault.code)
  | fuel + 1 =>
    if !p.isCurrentBlockValid then ([], 0)
    else
      let body : R Bytes := (p.readCurrentBlock).map (·.1)
      -- reading the body moves the position; seek_to_next_block seeks absolutely, so use `p`
      match p.seekToNextBlock with
      | .error e => ([(p.curType, p.curLength, body)], e.code)
      | .ok p1 =>
        let (rest, rc) := walkLoop p1 fuel
        ((p.curType, p.curLength, body) :: rest, rc)

def walk (mem : Bool) (data : Bytes) : R (Nat × List (Nat × Nat × R Bytes) × Nat) := do
  let p ← init mem data
  let (l, rc) := walkLoop p (data.length + 2)
  pure (p.version, l, rc)

end Sb.Container
