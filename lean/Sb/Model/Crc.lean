/-
Model of src/crc32.c (`sb_ap_crc32_update`) and of the file checksum loop
`sb_i_binary_file_get_crc32` of src/formats/binary.c.
-/
import Sb.Model.Basic

namespace Sb.Crc

/-- The generated table as 32-bit words. -/
def tab : List (BitVec 32) := Gen.crc32Tab.map (BitVec.ofNat 32)

def tabAt (i : Nat) : BitVec 32 := tab.getD i 0

/-- one iteration of the loop body: `crc = crc32_tab[(crc ^ buf[i]) & 0xff] ^ (crc >> 8)` -/
def stepByte (crc : BitVec 32) (byte : UInt8) : BitVec 32 :=
  tabAt ((crc ^^^ BitVec.ofNat 32 byte.toNat).toNat % 256) ^^^ (crc >>> 8)

/-- `sb_ap_crc32_update(crc, buf, size)` -/
def update (crc : BitVec 32) (bs : Bytes) : BitVec 32 := bs.foldl stepByte crc

/-- zero the checksum field in the first chunk, as the C loop does
(`if (offset == 0 && bytes_read >= 10) buf[6] = buf[7] = buf[8] = buf[9] = 0`).  The positions are
the format's (bytes 6..9 after magic, version and feature byte); that the code still uses these
is the side-condition `Sb.C05.crc_field_position` on the generated constants. -/
def zeroField (chunk : Bytes) : Bytes :=
  if chunk.length ≥ 10 then chunk.take 6 ++ [0, 0, 0, 0] ++ chunk.drop 10 else chunk

/-- the `while (1)` loop of `sb_i_binary_file_get_crc32`, reading `Gen.crcChunk` bytes at a time;
`first` = (offset == 0). -/
def fileLoop (rest : Bytes) (first : Bool) (crc : BitVec 32) : BitVec 32 :=
  let chunk := rest.take Gen.crcChunk
  let chunk' := if first then zeroField chunk else chunk
  let crc' := update crc chunk'
  -- `bytes_read < sizeof(buf)`: the read was short, i.e. fewer than a chunk remained
  if h : rest.length < Gen.crcChunk then crc'
  else fileLoop (rest.drop Gen.crcChunk) false crc'
termination_by rest.length
decreasing_by
  have hc : 0 < Gen.crcChunk := by decide
  simp only [List.length_drop]
  omega

/-- checksum of a whole file as the parser computes it -/
def fileCrc (file : Bytes) : BitVec 32 := fileLoop file true 0

end Sb.Crc
