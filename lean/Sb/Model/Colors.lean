/-
Model of src/lights/colors.c : RGB565 codec, linear interpolation, RGBW conversions.
-/
import Sb.Model.Basic

namespace Sb.Colors

/-- `sb_rgb_color_decode_rgb565` (arguments pass through `uint8_t` parameters) -/
def decodeRgb565 (c : Nat) : Nat × Nat × Nat :=
  (((c &&& 0xf800) >>> 8) % 256, ((c &&& 0x7e0) >>> 3) % 256, ((c &&& 0x1f) <<< 3) % 256)

/-- `sb_rgb_color_encode_rgb565` -/
def encodeRgb565 (r g b : Nat) : Nat :=
  ((((r >>> 3) &&& 0x1f) <<< 11) ||| (((g >>> 2) &&& 0x3f) <<< 5) ||| ((b >>> 3) &&& 0x1f)) % 65536

end Sb.Colors
