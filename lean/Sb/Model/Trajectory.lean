/-
Model of src/trajectory/trajectory.c : block header, segment decoding, the cursor ("player"),
position / velocity / acceleration queries, durations.

The conversion of millisecond counters to seconds (`msec / 1000.0f`) is a parameter
`sec : Nat → Rat`: the correspondence run uses `secF32` (exact binary32 rounding), the theorems
about the format use `secExact`, and the history-independence theorems hold for every monotone `sec`.
-/
import Sb.Model.Parsing
import Sb.Model.Poly

namespace Sb.Traj
open Sb.Parsing Sb.Poly

def secExact (ms : Nat) : Rat := (ms : Rat) / (Gen.msecPerSec : Nat)
def secF32 (ms : Nat) : Rat := roundF32 ((ms : Rat) / (Gen.msecPerSec : Nat))

/-- query time after the `if (t <= 0) t = 0` clamp -/
inductive QTime where
  | fin (q : Rat)      -- finite, ≥ 0 after clamping
  | pinf
  | nan
  deriving DecidableEq, Inhabited

def QTime.ofF32 : F32 → QTime
  | .fin q => .fin (if q ≤ 0 then 0 else q)
  | .pinf => .pinf
  | .ninf => .fin 0
  | .nan => .nan

structure Traj where
  buf : Bytes
  scale : Nat
  useYaw : Bool
  start : Vec4
  headerLength : Nat
  deriving Inhabited

/-- `sb_i_trajectory_parse_coordinate` : int16 × scale -/
def parseCoord (buf : Bytes) (scale : Nat) (off : Nat) : R (Rat × Nat) := do
  let (v, o) ← parseI16 buf off
  pure ((v : Rat) * (scale : Rat), o)

/-- `sb_i_trajectory_parse_angle` : tenths of degrees reduced to [0, 3600), in degrees.
C's `%` truncates toward zero: `Int.tmod`. -/
def parseAngle (buf : Bytes) (off : Nat) : R (Rat × Nat) := do
  let (v, o) ← parseI16 buf off
  let a := Int.tmod v (Gen.angleModulus : Nat)
  let a := if a < 0 then a + (Gen.angleModulus : Nat) else a
  pure ((a : Rat) / (Gen.angleDivisor : Nat), o)

/-- size of the block header: scale/flags byte, start x y z, start yaw -/
def headerSize : Nat := 9

/-- `sb_i_trajectory_init_from_bytes` + `sb_i_trajectory_parse_header`.
A block shorter than its 9-byte header is rejected (`SB_EPARSE`). -/
def init (buf : Bytes) : R Traj :=
  if buf.length < headerSize then .error .eparse
  else do
    let b0 ← rd buf 0
    let scale := b0 &&& 0x7f
    let (x, o) ← parseCoord buf scale 1
    let (y, o) ← parseCoord buf scale o
    let (z, o) ← parseCoord buf scale o
    let (yaw, o) ← parseAngle buf o
    pure { buf := buf, scale := scale, useYaw := b0 &&& 0x80 != 0, start := ⟨x, y, z, yaw⟩, headerLength := o }

/-- `sb_i_get_num_coords` -/
def numCoords (headerBits : Nat) : Nat := 1 <<< (headerBits &&& 0x03)

structure Seg where
  startOff : Nat
  length : Nat            -- 0 ⇒ terminal pseudo-segment ("no more segments")
  startMs : Nat
  endMs : Nat
  durMs : Nat
  startSec : Rat
  endSec : Option Rat     -- none = +∞
  durSec : Option Rat
  endPt : Vec4
  poly : Poly4
  ctrl : Poly4            -- ghost: the control points per axis (not stored by the C code)
  dpoly : Option Poly4 := none     -- cache, `SB_TRAJECTORY_SEGMENT_DPOLY_VALID`
  ddpoly : Option Poly4 := none
  deriving DecidableEq, Inhabited

/-- parse `n-1` further control points of one axis -/
def parseAxis (buf : Bytes) (angle : Bool) (scale : Nat) : Nat → Nat → List Rat → R (List Rat × Nat)
  | 0, off, acc => .ok (acc.reverse, off)
  | k + 1, off, acc => do
    let (c, o) ← if angle then parseAngle buf off else parseCoord buf scale off
    parseAxis buf angle scale k o (c :: acc)

/-- number of bytes of a segment whose header byte is `h` -/
def segSize (h : Nat) : Nat :=
  3 + 2 * ((numCoords h - 1) + (numCoords (h >>> 2) - 1) + (numCoords (h >>> 4) - 1) + (numCoords (h >>> 6) - 1))

def u32 (n : Nat) : Nat := n % 4294967296

/-- the pseudo-segment that holds the last point forever ("no more segments") -/
def terminalSeg (sec : Nat → Rat) (offset startMs : Nat) (start : Vec4) : Seg :=
  { startOff := offset, length := 0, startMs := startMs, endMs := 4294967295,
    durMs := (4294967295 - startMs) % 65536, startSec := sec startMs, endSec := none, durSec := none,
    endPt := start, poly := Poly4.const start, ctrl := Poly4.const start }

/-- a decoded segment with control points `xs ys zs ws` (first entries = start point) -/
def mkSeg (sec : Nat → Rat) (offset len startMs dur : Nat) (start : Vec4) (xs ys zs ws : List Rat) : Seg :=
  { startOff := offset, length := len, startMs := startMs, endMs := u32 (startMs + dur), durMs := dur,
    startSec := sec startMs, endSec := some (sec (u32 (startMs + dur))), durSec := some (sec dur),
    endPt := ⟨xs.getLastD start.x, ys.getLastD start.y, zs.getLastD start.z, ws.getLastD start.yaw⟩,
    poly := ⟨makeBezier 1 xs, makeBezier 1 ys, makeBezier 1 zs, makeBezier 1 ws⟩,
    ctrl := ⟨xs, ys, zs, ws⟩ }

/-- `sb_i_trajectory_player_build_current_segment` -/
def buildSegment (sec : Nat → Rat) (tr : Traj) (offset startMs : Nat) (start : Vec4) : R Seg :=
  if offset ≥ tr.buf.length ∨ tr.scale = 0 then .ok (terminalSeg sec offset startMs start)
  else do
    let h ← rd tr.buf offset
    -- a segment that does not fit into the block ends the trajectory
    if offset + segSize h > tr.buf.length then .ok (terminalSeg sec offset startMs start)
    else
      let (dur, o) ← parseU16 tr.buf (offset + 1)
      let (xs, o) ← parseAxis tr.buf false tr.scale (numCoords h - 1) o [start.x]
      let (ys, o) ← parseAxis tr.buf false tr.scale (numCoords (h >>> 2) - 1) o [start.y]
      let (zs, o) ← parseAxis tr.buf false tr.scale (numCoords (h >>> 4) - 1) o [start.z]
      let (ws, o) ← parseAxis tr.buf true tr.scale (numCoords (h >>> 6) - 1) o [start.yaw]
      pure (mkSeg sec offset (o - offset) startMs dur start xs ys zs ws)

structure Player where
  traj : Traj
  cur : Seg
  deriving Inhabited

/-- `sb_trajectory_player_rewind` -/
def rewind (sec : Nat → Rat) (tr : Traj) : R Player := do
  let s ← buildSegment sec tr tr.headerLength 0 tr.start
  pure ⟨tr, s⟩

/-- `sb_trajectory_player_build_next_segment` -/
def next (sec : Nat → Rat) (p : Player) : R Player := do
  let s ← buildSegment sec p.traj (p.cur.startOff + p.cur.length) p.cur.endMs p.cur.endPt
  pure ⟨p.traj, s⟩

def Player.hasMore (p : Player) : Bool := p.cur.length > 0

def ltQ (a : Rat) (t : QTime) : Bool :=   -- a < t  (float comparison; NaN ⇒ false)
  match t with
  | .fin q => a < q
  | .pinf => true
  | .nan => false

def gtQ (a : Rat) (t : QTime) : Bool :=   -- a > t
  match t with
  | .fin q => a > q
  | .pinf => false
  | .nan => false

def endLt (e : Option Rat) (t : QTime) : Bool :=   -- end_time_sec < t
  match e with
  | some a => ltQ a t
  | none => false

/-- the `while (1)` of `sb_i_trajectory_player_seek_to_time`; fuel exhaustion would be a hang -/
def seekLoop (sec : Nat → Rat) (t : QTime) : Nat → Player → R Player
  | 0, _ => .error .fault
  | fuel + 1, p =>
    if gtQ p.cur.startSec t then do
      let p' ← rewind sec p.traj
      seekLoop sec t fuel p'
    else if endLt p.cur.endSec t then do
      let p' ← next sec p
      seekLoop sec t fuel p'
    else .ok p

/-- relative time inside the current segment -/
def relT (s : Seg) (t : QTime) : Rat :=
  match t with
  | .fin q =>
    match s.durSec with
    | some d => if absR d > 1 / 1000000 then (q - s.startSec) / d else 1 / 2
    | none => 0            -- (t - start) / inf
  | _ => 1                 -- !isfinite(t)

def seekFuel (tr : Traj) : Nat := tr.buf.length + 3

/-- `sb_i_trajectory_player_seek_to_time` -/
def seek (sec : Nat → Rat) (p : Player) (t : QTime) : R (Player × Rat) := do
  let p' ← seekLoop sec t (seekFuel p.traj) p
  pure (p', relT p'.cur t)

/-- `sb_trajectory_player_get_position_at` -/
def positionAt (sec : Nat → Rat) (p : Player) (t : QTime) : R (Player × Vec4) := do
  let (p', r) ← seek sec p t
  pure (p', p'.cur.poly.eval r)

/-- `sb_i_get_dpoly` : compute on first use, then cached in the segment -/
def getDpoly (s : Seg) : Seg × Poly4 :=
  match s.dpoly with
  | some d => (s, d)
  | none =>
    let d := s.poly.deriv
    let d := match s.durSec with
      | some dur => if absR dur > 1 / 1000000 then d.scale (1 / dur) else d
      | none => d.scale 0      -- 1.0f / inf = 0
    ({ s with dpoly := some d }, d)

/-- `sb_i_get_ddpoly` -/
def getDdpoly (s : Seg) : Seg × Poly4 :=
  match s.ddpoly with
  | some d => (s, d)
  | none =>
    let (s1, d1) := getDpoly s
    let d := d1.deriv
    let d := match s.durSec with
      | some dur => if absR dur > 1 / 1000000 then d.scale (1 / dur) else d
      | none => d.scale 0
    ({ s1 with ddpoly := some d }, d)

def velocityAt (sec : Nat → Rat) (p : Player) (t : QTime) : R (Player × Vec4) := do
  let (p', r) ← seek sec p t
  let (s, d) := getDpoly p'.cur
  pure ({ p' with cur := s }, d.eval r)

def accelerationAt (sec : Nat → Rat) (p : Player) (t : QTime) : R (Player × Vec4) := do
  let (p', r) ← seek sec p t
  let (s, d) := getDdpoly p'.cur
  pure ({ p' with cur := s }, d.eval r)

/-- the loop of `sb_trajectory_player_get_total_duration_msec` -/
def durLoop (sec : Nat → Rat) : Nat → Player → Nat → R (Player × Nat)
  | 0, _, _ => .error .fault
  | fuel + 1, p, acc =>
    if p.hasMore then do
      let p' ← next sec p
      durLoop sec fuel p' (u32 (acc + p.cur.durMs))
    else .ok (p, acc)

def totalDurationMsec (sec : Nat → Rat) (p : Player) : R (Player × Nat) := do
  let p0 ← rewind sec p.traj
  durLoop sec (seekFuel p.traj) p0 0

end Sb.Traj
