/-
Model of the four `..._init_from_binary_file[_in_memory]` loaders: find the block of the kind's
type in the container, obtain its bytes (copy for the descriptor route, view for the memory route;
the RTH plan always copies), initialise the object from the bytes.
-/
import Sb.Model.Container
import Sb.Model.Trajectory
import Sb.Model.Yaw
import Sb.Model.Rth

namespace Sb.Load
open Sb.Container

inductive Kind where
  | traj | light | yaw | rth
  deriving DecidableEq, Repr

def Kind.blockType : Kind → Nat
  | .traj => Gen.SB_BINARY_BLOCK_TRAJECTORY
  | .light => Gen.SB_BINARY_BLOCK_LIGHT_PROGRAM
  | .yaw => Gen.SB_BINARY_BLOCK_YAW_CONTROL
  | .rth => Gen.SB_BINARY_BLOCK_RTH_PLAN

/-- the block bytes as the loader obtains them, and whether the object will own the storage -/
def blockBytes (k : Kind) (mem : Bool) (data : Bytes) : R (Bytes × Bool) := do
  let p ← init mem data
  let p1 ← p.findFirstBlockByType k.blockType
  if k = .rth then
    let (b, _) ← p1.readCurrentBlock
    pure (b, true)
  else
    let (b, owned, _) ← p1.readCurrentBlockEx
    pure (b, owned)

/-- `sb_i_<kind>_init_from_bytes`: success or the error code -/
def initFromBytes (k : Kind) (b : Bytes) (_owned : Bool) : R Unit :=
  match k with
  | .traj => (Traj.init b).map (fun _ => ())
  | .yaw => (Yaw.init b).map (fun _ => ())
  | .rth => (Rth.init b).map (fun _ => ())
  | .light => .ok ()        -- an empty program is a valid (empty) program in both storage modes

/-- the loader: block bytes of the loaded object, or the error -/
def load (k : Kind) (mem : Bool) (data : Bytes) : R (Bytes × Bool) := do
  let (b, owned) ← blockBytes k mem data
  initFromBytes k b owned
  pure (b, owned)

end Sb.Load
