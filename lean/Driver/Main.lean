/-
sbmodel : the correspondence driver.

  sbmodel <cases> <impl-answers>

Reads the case file and the implementation's answers in lock step and prints one verdict per
case:  `<id> OK [tags…]`  |  `<id> FAIL <why>`  |  `<id> BADCASE <why>`.
The model answers and the acceptance relation are the Lean definitions of `Sb.Model` / `Sb.Corr`.
-/
import Sb.Corr.Codec
import Sb.Corr.Container
import Sb.Corr.YawOps
import Sb.Corr.LightOps
import Sb.Corr.RthOps
import Sb.Corr.LoadOps
import Sb.Corr.BuilderOps
import Sb.Corr.UtilOps
import Sb.Corr.ConvOps
import Sb.Corr.AllocOps
import Sb.Corr.PolyOps
import Sb.Corr.StatsOps

open Sb.Corr

def dispatch (op : String) (args impl : List String) : Verdict :=
  match op with
  | "wr16" => opWr16 args impl
  | "wri16" => opWri16 args impl
  | "wr32" => opWr32 args impl
  | "wri32" => opWri32 args impl
  | "p16" => opP16 args impl
  | "p32" => opP32 args impl
  | "varu" => opVaru args impl
  | "r565d" => opR565d args impl
  | "r565e" => opR565e args impl
  | "r565e_all" => opR565eAll args impl
  | "varu_grid" => opVaruGrid args impl
  | "crcupd" => opCrcUpd args impl
  | "fcorr" => opFcorr args impl
  | "lightq" => opLightq args impl
  | "rth" => opRth args impl
  | "load2" => opLoad2 args impl
  | "bld" => opBld args impl
  | "tt" => opTt args impl
  | "ttmono" => opTtMono args impl
  | "scale" => opScale args impl
  | "ms" => opMs args impl
  | "ivl" => opIvl args impl
  | "lerp" => opLerp args impl
  | "lerp_row" => opLerpRow args impl
  | "rgbw" => opRgbw args impl
  | "rgbw_row" => opRgbwRow args impl
  | "rgbwseq" => opRgbwSeq args impl
  | "bufops" => opBufops args impl
  | "rthconv" => opRthConv args impl
  | "alloc" => opAlloc args impl
  | "polymk" => opPolymk args impl
  | "poly" => opPoly args impl
  | "stats" => opStats args impl
  | "statsseq" => opStatsSeq args impl
  | "traj" => opTraj args impl
  | "yawq" => opYawq args impl
  | "facc" => opFacc args impl
  | "faccseq" => opFaccSeq args impl
  | "walk" => opWalk args impl
  | "find" => opFind args impl
  | _ => .badCase s!"unknown op {op}"

def toks (line : String) : List String :=
  (line.trimAscii.toString.splitOn " ").filter (· ≠ "")

partial def loop (cases impl : IO.FS.Stream) (out : IO.FS.Stream) : IO Unit := do
  let cl ← cases.getLine
  if cl.isEmpty then return ()
  let ct := toks cl
  match ct with
  | id :: op :: args =>
    let il ← impl.getLine
    let it := toks il
    match it with
    | id' :: rest =>
      if id' ≠ id then
        out.putStrLn s!"{id} BADCASE answer id mismatch ({id'})"
      else
        match rest with
        | ["CRASH"] => out.putStrLn s!"{id} FAIL implementation crashed (sanitizer report / abort)"
        | ["TIMEOUT"] => out.putStrLn s!"{id} FAIL {timeoutExplain op args}"
        | _ => out.putStrLn s!"{id} {(dispatch op args rest).render}"
    | [] => out.putStrLn s!"{id} BADCASE missing answer"
    loop cases impl out
  | _ => loop cases impl out

def main (argv : List String) : IO UInt32 := do
  match argv with
  | [cp, ip] =>
    let ch ← IO.FS.Handle.mk cp .read
    let ih ← IO.FS.Handle.mk ip .read
    let out ← IO.getStdout
    loop (IO.FS.Stream.ofHandle ch) (IO.FS.Stream.ofHandle ih) out
    return 0
  | _ =>
    IO.eprintln "usage: sbmodel <cases> <impl-answers>"
    return 2
