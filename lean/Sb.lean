-- Root of the `Sb` library.
import Sb.Model.Basic
import Sb.Model.Parsing
import Sb.Model.Crc
import Sb.Model.Colors
import Sb.Model.Container
import Sb.Corr.Util
import Sb.Corr.Codec
import Sb.Corr.Container
