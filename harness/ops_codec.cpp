// C19: parsing.c codecs, RGB565;  C05: sb_ap_crc32_update
#include "sbh_common.hpp"
extern "C" {
#include <skybrush/colors.h>
#include <skybrush/utils.h>
#include "parsing.h"
}
#define REPO_PARSING 1

static long long tokll(const std::string& s) { return strtoll(s.c_str(), nullptr, 10); }

// wr16 v : write at offset 2 of a 6-byte 0xAA buffer, then parse back
SB_OP(wr16)
{
    uint8_t raw[6];
    memset(raw, 0xAA, 6);
    ExactBuf b(raw, 6);
    size_t off = 2;
    sb_write_uint16(b.p, &off, (uint16_t)tokll(t[2]));
    add(out, hex(b.p + 2, 2));
    addu(out, off);
    size_t o2 = 2;
    uint16_t u = sb_parse_uint16(b.p, &o2);
    addu(out, u);
    addu(out, o2);
    o2 = 2;
    add(out, (long long)sb_parse_int16(b.p, &o2));
    add(out, (b.p[0] == 0xAA && b.p[1] == 0xAA && b.p[4] == 0xAA && b.p[5] == 0xAA) ? 1 : 0);
}
SB_OP(wri16)
{
    uint8_t raw[6];
    memset(raw, 0xAA, 6);
    ExactBuf b(raw, 6);
    size_t off = 2;
    sb_write_int16(b.p, &off, (int16_t)tokll(t[2]));
    add(out, hex(b.p + 2, 2));
    addu(out, off);
    size_t o2 = 2;
    add(out, (long long)sb_parse_int16(b.p, &o2));
    addu(out, o2);
    add(out, (b.p[0] == 0xAA && b.p[1] == 0xAA && b.p[4] == 0xAA && b.p[5] == 0xAA) ? 1 : 0);
}
SB_OP(wr32)
{
    uint8_t raw[8];
    memset(raw, 0xAA, 8);
    ExactBuf b(raw, 8);
    size_t off = 2;
    sb_write_uint32(b.p, &off, (uint32_t)strtoull(t[2].c_str(), nullptr, 10));
    add(out, hex(b.p + 2, 4));
    addu(out, off);
    size_t o2 = 2;
    addu(out, sb_parse_uint32(b.p, &o2));
    addu(out, o2);
    o2 = 2;
    add(out, (long long)sb_parse_int32(b.p, &o2));
    add(out, (b.p[0] == 0xAA && b.p[1] == 0xAA && b.p[6] == 0xAA && b.p[7] == 0xAA) ? 1 : 0);
}
SB_OP(wri32)
{
    uint8_t raw[8];
    memset(raw, 0xAA, 8);
    ExactBuf b(raw, 8);
    size_t off = 2;
    sb_write_int32(b.p, &off, (int32_t)tokll(t[2]));
    add(out, hex(b.p + 2, 4));
    addu(out, off);
    size_t o2 = 2;
    add(out, (long long)sb_parse_int32(b.p, &o2));
    addu(out, o2);
    add(out, (b.p[0] == 0xAA && b.p[1] == 0xAA && b.p[6] == 0xAA && b.p[7] == 0xAA) ? 1 : 0);
}
// p16 hex off / p32 hex off : parse from arbitrary bytes (caller guarantees off+size <= len)
SB_OP(p16)
{
    auto v = unhex(t[2]);
    ExactBuf b(v);
    size_t off = (size_t)tokll(t[3]);
    size_t o = off;
    addu(out, sb_parse_uint16(b.p, &o));
    o = off;
    add(out, (long long)sb_parse_int16(b.p, &o));
    addu(out, o);
}
SB_OP(p32)
{
    auto v = unhex(t[2]);
    ExactBuf b(v);
    size_t off = (size_t)tokll(t[3]);
    size_t o = off;
    addu(out, sb_parse_uint32(b.p, &o));
    o = off;
    add(out, (long long)sb_parse_int32(b.p, &o));
    addu(out, o);
}
// varu hex n off : the buffer handed to the library has exactly n bytes
SB_OP(varu)
{
    auto v = unhex(t[2]);
    size_t n = (size_t)tokll(t[3]);
    if (n > v.size())
        n = v.size();
    ExactBuf b(v.data(), n);
    size_t off = (size_t)tokll(t[4]);
    uint32_t res = 0xdeadbeef;
    sb_error_t rc = sb_parse_varuint32(b.p, n, &off, &res);
    if (rc == SB_SUCCESS) {
        add(out, "ok");
        addu(out, res);
    } else if (rc == SB_EOVERFLOW)
        add(out, "overflow");
    else if (rc == SB_EPARSE)
        add(out, "parse");
    else
        add(out, "rc" + std::to_string((int)rc));
    addu(out, off);
}
SB_OP(r565d)
{
    sb_rgb_color_t c = sb_rgb_color_decode_rgb565((uint16_t)tokll(t[2]));
    addu(out, c.red);
    addu(out, c.green);
    addu(out, c.blue);
}
SB_OP(r565e)
{
    sb_rgb_color_t c = { (uint8_t)tokll(t[2]), (uint8_t)tokll(t[3]), (uint8_t)tokll(t[4]) };
    addu(out, sb_rgb_color_encode_rgb565(c));
}
// r565e_all r : FNV-1a over the encodings of all (r, g, b), g,b in 0..255 ; then per-g hashes are
// available through r565e_row r g
static uint64_t fnv(uint64_t h, uint32_t v)
{
    for (int i = 0; i < 4; i++) {
        h ^= (v >> (8 * i)) & 0xff;
        h *= 1099511628211ULL;
    }
    return h;
}
SB_OP(r565e_all)
{
    uint8_t r = (uint8_t)tokll(t[2]);
    uint64_t h = 14695981039346656037ULL;
    for (int g = 0; g < 256; g++)
        for (int b = 0; b < 256; b++) {
            sb_rgb_color_t c = { r, (uint8_t)g, (uint8_t)b };
            h = fnv(h, sb_rgb_color_encode_rgb565(c));
        }
    addu(out, h);
}
// crcupd crc0 hex s1 s2 ... : incremental update over the pieces cut at the split points
SB_OP(crcupd)
{
    uint32_t crc = (uint32_t)strtoull(t[2].c_str(), nullptr, 10);
    auto v = unhex(t[3]);
    ExactBuf b(v);
    size_t prev = 0;
    for (size_t i = 4; i <= t.size(); i++) {
        size_t cut = i < t.size() ? (size_t)tokll(t[i]) : v.size();
        if (cut > v.size())
            cut = v.size();
        if (cut < prev)
            cut = prev;
        crc = sb_ap_crc32_update(crc, b.p + prev, (uint32_t)(cut - prev));
        prev = cut;
    }
    addu(out, crc);
}

// varu_grid alphabet L prefix : enumerate all strings prefix++w, w in alphabet^(L-|prefix|)
// (lexicographic in alphabet order); for each and each start offset 0..L run the decoder on an
// exactly-sized buffer; answer = FNV-1a over (class, value, offset).  alphabet "*" = all bytes.
SB_OP(varu_grid)
{
    std::vector<uint8_t> alpha;
    if (t[2] == "*")
        for (int i = 0; i < 256; i++)
            alpha.push_back((uint8_t)i);
    else
        alpha = unhex(t[2]);
    size_t L = (size_t)tokll(t[3]);
    std::vector<uint8_t> s = unhex(t[4]);
    size_t plen = s.size();
    s.resize(L);
    std::vector<size_t> idx(L - plen, 0);
    uint64_t h = 14695981039346656037ULL;
    unsigned long long count = 0;
    while (true) {
        for (size_t i = plen; i < L; i++)
            s[i] = alpha[idx[i - plen]];
        ExactBuf b(s.data(), L);
        for (size_t off = 0; off <= L; off++) {
            size_t o = off;
            uint32_t res = 0;
            sb_error_t rc = sb_parse_varuint32(b.p, L, &o, &res);
            uint32_t cls = rc == SB_SUCCESS ? 0 : rc == SB_EOVERFLOW ? 1 : rc == SB_EPARSE ? 2 : 3;
            h = fnv(h, cls);
            h = fnv(h, rc == SB_SUCCESS ? res : 0);
            h = fnv(h, (uint32_t)o);
            count++;
        }
        // next word
        size_t k = idx.size();
        while (k > 0) {
            k--;
            if (++idx[k] < alpha.size())
                break;
            idx[k] = 0;
            if (k == 0) {
                k = (size_t)-1;
                break;
            }
        }
        if (idx.empty() || k == (size_t)-1)
            break;
    }
    addu(out, h);
    addu(out, count);
}
