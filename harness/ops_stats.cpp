// C13 / C14 / C15 : takeoff time, landing time, bounding box - through both loading routes
#include "sbh_common.hpp"
extern "C" {
#include <skybrush/trajectory.h>
#include <skybrush/utils.h>
}
#include <cmath>
#include <unistd.h>

static std::vector<std::string> split_commas(const std::string& s)
{
    std::vector<std::string> v;
    size_t a = 0;
    while (true) {
        size_t b = s.find(',', a);
        if (b == std::string::npos) {
            v.push_back(s.substr(a));
            break;
        }
        v.push_back(s.substr(a, b - a));
        a = b + 1;
    }
    return v;
}

static std::string answer(sb_trajectory_t* tr, const std::string& q)
{
    char k = q[0];
    auto a = split_commas(q.substr(1));
    if (k == 'K') {
        // K<h>,<v>,<a> : propose_takeoff, then the one-pass interface with the same parameters, then the climb time
        float h = tokf(a[0]), v = tokf(a[1]), acc = tokf(a[2]);
        float prop = sb_trajectory_propose_takeoff_time_sec(tr, h, v, acc);
        sb_trajectory_stats_calculator_t calc;
        sb_trajectory_stats_t st;
        memset(&st, SBH_FILL, sizeof(st));
        sb_trajectory_stats_calculator_init(&calc, 1.0f);
        calc.min_ascent = h;
        calc.takeoff_speed = v;
        calc.acceleration = acc;
        sb_error_t rc = sb_trajectory_stats_calculator_run(&calc, tr, &st);
        sb_trajectory_stats_calculator_destroy(&calc);
        // the one-pass interface asked for fewer components at once: every subset containing the takeoff time must give the
        // same answer as the full run; the first one that does not is the one reported to the judge
        for (int m = 0; m < 16; m++) {
            if (!(m & SB_TRAJECTORY_STATS_TAKEOFF_TIME) || m == SB_TRAJECTORY_STATS_ALL)
                continue;
            sb_trajectory_stats_calculator_t c2;
            sb_trajectory_stats_t s2;
            memset(&s2, SBH_FILL, sizeof(s2));
            sb_trajectory_stats_calculator_init(&c2, 1.0f);
            c2.min_ascent = h;
            c2.takeoff_speed = v;
            c2.acceleration = acc;
            sb_trajectory_stats_calculator_set_components(&c2, (sb_trajectory_stat_components_t)m);
            sb_error_t rc2 = sb_trajectory_stats_calculator_run(&c2, tr, &s2);
            sb_trajectory_stats_calculator_destroy(&c2);
            if (rc2 != rc || (rc == SB_SUCCESS && (memcmp(&s2.takeoff_time_sec, &st.takeoff_time_sec, sizeof(float)) != 0
                || memcmp(&s2.earliest_above_sec, &st.earliest_above_sec, sizeof(float)) != 0))) {
                rc = rc2;
                st = s2;
                break;
            }
        }
        float adj = sb_get_travel_time_for_distance(h, v, acc);
        return fbits(prop) + "," + std::to_string((int)rc) + "," + fbits(rc == SB_SUCCESS ? st.takeoff_time_sec : 0.0f) + ","
            + fbits(rc == SB_SUCCESS ? st.earliest_above_sec : 0.0f) + "," + fbits(adj);
    } else if (k == 'L') {
        // L<descent>,<threshold>
        float pd = tokf(a[0]), thr = tokf(a[1]);
        float prop = sb_trajectory_propose_landing_time_sec(tr, pd, thr);
        sb_trajectory_stats_calculator_t calc;
        sb_trajectory_stats_t st;
        memset(&st, SBH_FILL, sizeof(st));
        sb_trajectory_stats_calculator_init(&calc, 1.0f);
        calc.preferred_descent = pd;
        calc.verticality_threshold = thr;
        sb_error_t rc = sb_trajectory_stats_calculator_run(&calc, tr, &st);
        sb_trajectory_stats_calculator_destroy(&calc);
        // ... and every subset of components containing the landing time (see the takeoff query)
        for (int m = 0; m < 16; m++) {
            if (!(m & SB_TRAJECTORY_STATS_LANDING_TIME) || m == SB_TRAJECTORY_STATS_ALL)
                continue;
            sb_trajectory_stats_calculator_t c2;
            sb_trajectory_stats_t s2;
            memset(&s2, SBH_FILL, sizeof(s2));
            sb_trajectory_stats_calculator_init(&c2, 1.0f);
            c2.preferred_descent = pd;
            c2.verticality_threshold = thr;
            sb_trajectory_stats_calculator_set_components(&c2, (sb_trajectory_stat_components_t)m);
            sb_error_t rc2 = sb_trajectory_stats_calculator_run(&c2, tr, &s2);
            sb_trajectory_stats_calculator_destroy(&c2);
            if (rc2 != rc || (rc == SB_SUCCESS && memcmp(&s2.landing_time_sec, &st.landing_time_sec, sizeof(float)) != 0)) {
                rc = rc2;
                st = s2;
                break;
            }
        }
        return fbits(prop) + "," + std::to_string((int)rc) + "," + fbits(rc == SB_SUCCESS ? st.landing_time_sec : 0.0f) + ","
            + fbits(sb_trajectory_get_total_duration_sec(tr));
    } else if (k == 'B') {
        sb_bounding_box_t box;
        memset(&box, SBH_FILL, sizeof(box));
        sb_error_t rc = sb_trajectory_get_axis_aligned_bounding_box(tr, &box);
        sb_error_t rc2 = sb_trajectory_get_axis_aligned_bounding_box(tr, nullptr);
        return std::to_string((int)rc) + "," + fbits(box.x.min) + "," + fbits(box.x.max) + "," + fbits(box.y.min) + "," + fbits(box.y.max) + ","
            + fbits(box.z.min) + "," + fbits(box.z.max) + "," + (rc2 == SB_SUCCESS ? "=" : "!");
    }
    return "?";
}

// stats <hex of a .skyb file> queries...   every answer is computed on the descriptor-loaded and on the
// memory-loaded trajectory; the second must be bitwise the same ("=")
SB_OP(stats)
{
    auto v = unhex(t[2]);
    sb_trajectory_t ta, tb;
    memset(&ta, SBH_FILL, sizeof(ta));
    memset(&tb, SBH_FILL, sizeof(tb));
    int fd = make_fd(v);
    sb_error_t rca = sb_trajectory_init_from_binary_file(&ta, fd);
    close(fd);
    ExactBuf buf(v);
    sb_error_t rcb = sb_trajectory_init_from_binary_file_in_memory(&tb, buf.p, buf.n);
    add(out, std::to_string((int)rca) + "," + std::to_string((int)rcb));
    if (rca == SB_SUCCESS && rcb == SB_SUCCESS) {
        // the same trajectory OBJECT held another show a moment ago and was asked the very same question (a drone that gets a
        // new show uploaded): an answer is a function of the trajectory as it is now, not of the object's address
        static const std::vector<uint8_t> decoy = unhex("736b7962020144aa3223011b0001000000000000000000d00710b80b881301e8032c0110a00f0000");
        ExactBuf dbuf(decoy);
        for (size_t i = 3; i < t.size(); i++) {
            // (one object at a time: decoy, then the show, in the same object, with nothing asked in between)
            sb_trajectory_destroy(&ta);
            memset(&ta, SBH_FILL, sizeof(ta));
            if (sb_trajectory_init_from_binary_file_in_memory(&ta, dbuf.p, dbuf.n) == SB_SUCCESS) {
                (void)answer(&ta, t[i]);
                sb_trajectory_destroy(&ta);
            }
            memset(&ta, SBH_FILL, sizeof(ta));
            fd = make_fd(v);
            rca = sb_trajectory_init_from_binary_file(&ta, fd);
            close(fd);
            std::string A = rca == SB_SUCCESS ? answer(&ta, t[i]) : "";
            sb_trajectory_destroy(&tb);
            memset(&tb, SBH_FILL, sizeof(tb));
            if (sb_trajectory_init_from_binary_file_in_memory(&tb, dbuf.p, dbuf.n) == SB_SUCCESS) {
                (void)answer(&tb, t[i]);
                sb_trajectory_destroy(&tb);
            }
            memset(&tb, SBH_FILL, sizeof(tb));
            rcb = sb_trajectory_init_from_binary_file_in_memory(&tb, buf.p, buf.n);
            if (rca != SB_SUCCESS || rcb != SB_SUCCESS) {
                add(out, "reload-failed-" + std::to_string((int)rca) + "-" + std::to_string((int)rcb));
                break;
            }
            std::string B = answer(&tb, t[i]);
            add(out, A + "," + (A == B ? "=" : "!"));
        }
    }
    if (rca == SB_SUCCESS)
        sb_trajectory_destroy(&ta);
    if (rcb == SB_SUCCESS)
        sb_trajectory_destroy(&tb);
}

// statsseq <hex> <hex> ... : the files (all of the same length) are loaded one after the other - from memory out of ONE
// caller buffer that is overwritten in place (the next drone's upload), and through a descriptor after the previous
// trajectory was destroyed (the allocator may hand the same block out again) - and the box is asked each time
SB_OP(statsseq)
{
    std::vector<std::vector<uint8_t>> files;
    for (size_t i = 2; i < t.size(); i++)
        files.push_back(unhex(t[i]));
    if (files.empty())
        return;
    ExactBuf buf(files[0]);
    // phase 1: the memory route, one caller buffer; phase 2: the descriptor route (no other box query in between, so a
    // result remembered from the previous trajectory would be visible)
    std::vector<std::string> A(files.size()), B(files.size());
    std::vector<int> rcms(files.size(), -1), rcfs(files.size(), -1);
    for (size_t i = 0; i < files.size(); i++) {
        if (files[i].size() != buf.n)
            continue;
        memcpy(buf.p, files[i].data(), buf.n);
        sb_trajectory_t tm;
        memset(&tm, SBH_FILL, sizeof(tm));
        sb_error_t rcm = sb_trajectory_init_from_binary_file_in_memory(&tm, buf.p, buf.n);
        rcms[i] = (int)rcm;
        if (rcm == SB_SUCCESS) {
            A[i] = answer(&tm, "B");
            sb_trajectory_destroy(&tm);
        }
    }
    for (size_t i = 0; i < files.size(); i++) {
        if (files[i].size() != buf.n)
            continue;
        sb_trajectory_t tf;
        memset(&tf, SBH_FILL, sizeof(tf));
        int fd = make_fd(files[i]);
        sb_error_t rcf = sb_trajectory_init_from_binary_file(&tf, fd);
        close(fd);
        rcfs[i] = (int)rcf;
        if (rcf == SB_SUCCESS) {
            B[i] = answer(&tf, "B");
            sb_trajectory_destroy(&tf);
        }
    }
    for (size_t i = 0; i < files.size(); i++) {
        if (files[i].size() != buf.n) {
            add(out, "len");
            continue;
        }
        std::string s = std::to_string(rcms[i]) + "," + std::to_string(rcfs[i]);
        if (rcms[i] == 0 && rcfs[i] == 0)
            s += "," + A[i] + "," + (A[i] == B[i] ? "=" : "!");
        add(out, s);
    }
}
