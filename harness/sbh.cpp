// Correspondence harness: links the real libskybrush (built from /repo's working tree with
// ASan+UBSan) and executes one operation per input line, printing one answer line per case.
//
//   input : <id> <op> <args...>
//   output: <id> <tokens...>
//
// Floats are exchanged as IEEE-754 binary32 bit patterns (decimal uint32).  Byte strings are
// lower-case hex, "-" for the empty string.  A case that crashes (sanitizer abort) or hangs
// (SIGALRM watchdog) ends the process; the runner notices the missing answer and restarts
// after that case.
#include "sbh_common.hpp"
#include <algorithm>
#include <cmath>
#include <csignal>
#include <cstdint>
#include <cstdio>
#include <cstdlib>
#include <cstring>
#include <fcntl.h>
#include <string>
#include <sys/mman.h>
#include <unistd.h>
#include <vector>

extern "C" {
#include <skybrush/skybrush.h>
#include <skybrush/formats/binary.h>
#include "parsing.h"
}



int main(int argc, char** argv)
{
    const char* path = argc > 1 ? argv[1] : nullptr;
    FILE* in = path ? fopen(path, "r") : stdin;
    if (!in) {
        perror("open");
        return 2;
    }
    long skip = argc > 2 ? atol(argv[2]) : 0; // number of leading cases to skip (restart)
    signal(SIGALRM, on_alarm);
    char* line = nullptr;
    size_t cap = 0;
    long idx = 0;
    std::string out;
    while (getline(&line, &cap, in) > 0) {
        if (idx++ < skip)
            continue;
        Toks t = split(line);
        if (t.size() < 2)
            continue;
        g_current_id = t[0];
        alarm(g_watchdog_s);
        out.clear();
        bool known = dispatch(t, out);
        alarm(0);
        if (!known)
            out = "UNKNOWN-OP";
        printf("%s %s\n", t[0].c_str(), out.c_str());
        fflush(stdout);
    }
    return 0;
}
