// C04 / C05 / C06 : container parser through both backends
#include "sbh_common.hpp"
extern "C" {
#include <skybrush/formats/binary.h>
#include <skybrush/memory.h>
}

static long long tokll(const std::string& s) { return strtoll(s.c_str(), nullptr, 10); }

struct Opened {
    sb_binary_file_parser_t parser;
    ExactBuf* buf = nullptr;
    int fd = -1;
    sb_error_t rc;
    bool modified = false;
    std::string rcs() const { return std::to_string((long long)rc) + (modified ? "!the-caller's-buffer-was-modified" : ""); }
    Opened(const std::string& route, const std::vector<uint8_t>& v)
    {
        memset(&parser, SBH_FILL, sizeof(parser));
        if (route == "m") {
            buf = new ExactBuf(v);
            rc = sb_binary_file_parser_init_from_buffer(&parser, buf->p, buf->n);
            // the caller's bytes are input only: opening (and checksumming) a file must not write to them
            if (buf->n && memcmp(buf->p, v.data(), buf->n) != 0)
                modified = true;
        } else {
            fd = make_fd(v);
            rc = sb_binary_file_parser_init_from_file(&parser, fd);
        }
    }
    ~Opened()
    {
        sb_binary_file_parser_destroy(&parser);
        if (fd >= 0)
            close(fd);
        delete buf;
    }
};

// facc route hex -> rc of init
SB_OP(fcorr)
{
    auto v = unhex(t[3]);
    Opened o(t[2], v);
    add(out, o.rcs());
}
SB_OP(facc)
{
    auto v = unhex(t[3]);
    Opened o(t[2], v);
    add(out, o.rcs());
}

// faccseq route hex1 hex2 ... -> rc of init for each file, all loaded one after the other from the SAME caller
// buffer (memory route: altered in place) or the same descriptor (rewritten): a verdict must depend on the bytes
// that are there now, not on what was loaded from that place before
SB_OP(faccseq)
{
    std::vector<std::vector<uint8_t>> files;
    size_t maxlen = 1;
    for (size_t i = 3; i < t.size(); i++) {
        files.push_back(unhex(t[i]));
        maxlen = std::max(maxlen, files.back().size());
    }
    if (t[2] == "m") {
        uint8_t* block = (uint8_t*)malloc(maxlen);
        for (auto& f : files) {
            // same start address and (for equal lengths) the same size; the tail beyond the file is poisoned by
            // using an exact-size view only when the length equals the block size
            if (!f.empty())
                memcpy(block, f.data(), f.size());
            sb_binary_file_parser_t parser;
            memset(&parser, SBH_FILL, sizeof(parser));
            sb_error_t rc = sb_binary_file_parser_init_from_buffer(&parser, block, f.size());
            add(out, (long long)rc);
            sb_binary_file_parser_destroy(&parser);
        }
        free(block);
    } else {
        for (auto& f : files) {
            int fd = make_fd(f);
            sb_binary_file_parser_t parser;
            memset(&parser, SBH_FILL, sizeof(parser));
            sb_error_t rc = sb_binary_file_parser_init_from_file(&parser, fd);
            add(out, (long long)rc);
            sb_binary_file_parser_destroy(&parser);
            close(fd);
        }
    }
}

static std::string body_of_current(sb_binary_file_parser_t* p)
{
    sb_binary_block_t blk = sb_binary_file_get_current_block(p);
    std::vector<uint8_t> body(blk.length ? blk.length : 1);
    ExactBuf dst(body.data(), blk.length);
    sb_error_t rc = sb_binary_file_read_current_block(p, dst.p);
    if (rc != SB_SUCCESS)
        return "E" + std::to_string((int)rc);
    return hex(dst.p, blk.length);
}

// walk route hex -> rc [version (type:len:body|Erc)* final_rc]
SB_OP(walk)
{
    auto v = unhex(t[3]);
    Opened o(t[2], v);
    add(out, (long long)o.rc);
    if (o.rc != SB_SUCCESS)
        return;
    add(out, (long long)sb_binary_file_parser_get_version(&o.parser));
    long guard = 0;
    sb_error_t rc = SB_SUCCESS;
    while (sb_binary_file_is_current_block_valid(&o.parser) && guard++ < 100000) {
        sb_binary_block_t blk = sb_binary_file_get_current_block(&o.parser);
        add(out, std::to_string((int)blk.type) + ":" + std::to_string(blk.length) + ":" + body_of_current(&o.parser));
        rc = sb_binary_file_seek_to_next_block(&o.parser);
        if (rc != SB_SUCCESS)
            break;
    }
    add(out, (long long)rc);
    // wherever the walk ended (also after a failed step): rewinding puts the cursor back on the first record
    sb_error_t rr = sb_binary_file_rewind(&o.parser);
    if (rr == SB_SUCCESS) {
        sb_binary_block_t blk = sb_binary_file_get_current_block(&o.parser);
        add(out, "R0:" + std::to_string((int)blk.type) + ":" + std::to_string(blk.length) + ":" + std::to_string(sb_binary_file_is_current_block_valid(&o.parser) ? 1 : 0));
    } else {
        add(out, "R" + std::to_string((int)rr));
    }
}

// find route hex type -> rc_init [rc_find [type len start body|Erc  exrc [owned size body]]]
SB_OP(find)
{
    auto v = unhex(t[3]);
    Opened o(t[2], v);
    add(out, (long long)o.rc);
    if (o.rc != SB_SUCCESS)
        return;
    // optional history: walk k blocks forward first (the lookup must not depend on where the cursor is)
    if (t.size() > 5) {
        long long k = tokll(t[5]);
        for (long long i = 0; i < k; i++)
            if (sb_binary_file_seek_to_next_block(&o.parser) != SB_SUCCESS)
                break;
    }
    sb_error_t rc = sb_binary_file_find_first_block_by_type(&o.parser, (sb_binary_block_type_t)tokll(t[4]));
    add(out, (long long)rc);
    if (rc != SB_SUCCESS)
        return;
    sb_binary_block_t blk = sb_binary_file_get_current_block(&o.parser);
    add(out, (long long)blk.type);
    add(out, (long long)blk.length);
    add(out, (long long)blk.start_of_body);
    add(out, body_of_current(&o.parser));
    uint8_t* p = nullptr;
    size_t size = 0;
    sb_bool_t owned = 0;
    rc = sb_binary_file_read_current_block_ex(&o.parser, &p, &size, &owned);
    add(out, (long long)rc);
    if (rc == SB_SUCCESS) {
        add(out, (long long)owned);
        addu(out, size);
        add(out, hex(p, size)); // reading the view: ASan reports if it leaves the caller's buffer
        if (owned)
            free(p);
    }
}
