// C16 : trajectory builder call sequences; C12 : RTH entry conversion
#include "sbh_common.hpp"
#include <cmath>
extern "C" {
#include <skybrush/rth_plan.h>
#include <skybrush/trajectory.h>
}

static std::vector<std::string> splitc(const std::string& s)
{
    std::vector<std::string> v;
    size_t a = 0;
    while (true) {
        size_t b = s.find(',', a);
        if (b == std::string::npos) {
            v.push_back(s.substr(a));
            break;
        }
        v.push_back(s.substr(a, b - a));
        a = b + 1;
    }
    return v;
}

static sb_vector3_with_yaw_t vec_of(const std::vector<std::string>& v, size_t i)
{
    sb_vector3_with_yaw_t r;
    r.x = tokf(v[i]);
    r.y = tokf(v[i + 1]);
    r.z = tokf(v[i + 2]);
    r.yaw = tokf(v[i + 3]);
    return r;
}

static std::string bufhex(sb_trajectory_builder_t* b)
{
    return hex(SB_BUFFER(b->buffer), sb_buffer_size(&b->buffer));
}

// bld I<scale>,<flags> then S<x>,<y>,<z>,<yaw> | A<x>,<y>,<z>,<yaw>,<ms> | H<ms> | F
SB_OP(bld)
{
    sb_trajectory_builder_t b;
    // init must not depend on what the object held before: it is made on memory that is not zero-filled
    memset(&b, 0xA5, sizeof(b));
    bool inited = false;
    for (size_t i = 2; i < t.size(); i++) {
        char k = t[i][0];
        auto a = splitc(t[i].substr(1));
        if (k == 'I') {
            if (inited)
                sb_trajectory_builder_destroy(&b);
            sb_error_t rc = sb_trajectory_builder_init(&b, (uint8_t)strtoul(a[0].c_str(), nullptr, 10), (uint8_t)strtoul(a[1].c_str(), nullptr, 10));
            inited = rc == SB_SUCCESS;
            add(out, std::to_string((int)rc) + ":" + (inited ? bufhex(&b) : std::string("-")));
            if (!inited)
                return;
        } else if (!inited) {
            add(out, "noinit");
        } else if (k == 'R') {
            // a successful init on a builder that is in use (not destroyed first): the builder starts afresh;
            // the abandoned buffer is released here so that the run stays leak-free
            sb_buffer_t old = b.buffer;
            sb_error_t rc = sb_trajectory_builder_init(&b, (uint8_t)strtoul(a[0].c_str(), nullptr, 10), (uint8_t)strtoul(a[1].c_str(), nullptr, 10));
            if (rc == SB_SUCCESS)
                sb_buffer_destroy(&old);
            add(out, std::to_string((int)rc) + ":" + bufhex(&b));
        } else if (k == 'J') {
            // a refused init (invalid scale) on a live builder: it must not change anything
            sb_error_t rc = sb_trajectory_builder_init(&b, (uint8_t)strtoul(a[0].c_str(), nullptr, 10), (uint8_t)strtoul(a[1].c_str(), nullptr, 10));
            add(out, std::to_string((int)rc) + ":" + bufhex(&b));
            if (rc == SB_SUCCESS)
                return; // not generated: a successful re-init would abandon the old buffer
        } else if (k == 'S') {
            sb_error_t rc = sb_trajectory_builder_set_start_position(&b, vec_of(a, 0));
            add(out, std::to_string((int)rc) + ":" + bufhex(&b));
        } else if (k == 'A') {
            sb_error_t rc = sb_trajectory_builder_append_line(&b, vec_of(a, 0), (uint32_t)strtoul(a[4].c_str(), nullptr, 10));
            add(out, std::to_string((int)rc) + ":" + bufhex(&b));
        } else if (k == 'H') {
            sb_error_t rc = sb_trajectory_builder_hold_position_for(&b, (uint32_t)strtoul(a[0].c_str(), nullptr, 10));
            add(out, std::to_string((int)rc) + ":" + bufhex(&b));
        } else if (k == 'F') {
            sb_trajectory_t tr;
            memset(&tr, SBH_FILL, sizeof(tr));
            sb_error_t rc = sb_trajectory_init_from_builder(&tr, &b);
            std::string s = std::to_string((int)rc);
            if (rc == SB_SUCCESS) {
                s += ":" + hex(SB_BUFFER(tr.buffer), sb_buffer_size(&tr.buffer)) + ":" + bufhex(&b) + ":" + std::to_string(sb_trajectory_get_total_duration_msec(&tr));
                // where the finished trajectory starts and ends (read back through a player)
                sb_trajectory_player_t pl;
                if (sb_trajectory_player_init(&pl, &tr) == SB_SUCCESS) {
                    const float probes[2] = { 0.0f, INFINITY };
                    for (float pt : probes) {
                        sb_vector3_with_yaw_t r = { 0, 0, 0, 0 };
                        sb_error_t prc = sb_trajectory_player_get_position_at(&pl, pt, &r);
                        s += ":" + std::to_string((int)prc) + "," + std::to_string(f2b(r.x)) + "," + std::to_string(f2b(r.y)) + ","
                            + std::to_string(f2b(r.z)) + "," + std::to_string(f2b(r.yaw));
                    }
                    sb_trajectory_player_destroy(&pl);
                } else
                    s += ":playerinit";
                sb_trajectory_destroy(&tr);
            }
            add(out, s);
        }
    }
    if (inited)
        sb_trajectory_builder_destroy(&b);
}

// rthconv action time dur tx ty alt pre post neck neckdur sx sy sz syaw  (all float bit patterns but action)
SB_OP(rthconv)
{
    sb_rth_plan_entry_t e;
    memset(&e, SBH_FILL, sizeof(e));
    e.action = (sb_rth_action_t)atoi(t[2].c_str());
    e.time_sec = tokf(t[3]);
    e.duration_sec = tokf(t[4]);
    e.target.x = tokf(t[5]);
    e.target.y = tokf(t[6]);
    e.target_altitude = tokf(t[7]);
    e.pre_delay_sec = tokf(t[8]);
    e.post_delay_sec = tokf(t[9]);
    e.pre_neck_mm = tokf(t[10]);
    e.pre_neck_duration_sec = tokf(t[11]);
    sb_vector3_with_yaw_t start = { tokf(t[12]), tokf(t[13]), tokf(t[14]), tokf(t[15]) };
    sb_trajectory_t tr;
    memset(&tr, SBH_FILL, sizeof(tr));
    sb_error_t rc = sb_trajectory_init_from_rth_plan_entry(&tr, &e, start);
    add(out, (long long)rc);
    if (rc == SB_SUCCESS) {
        add(out, hex(SB_BUFFER(tr.buffer), sb_buffer_size(&tr.buffer)));
        addu(out, sb_trajectory_get_total_duration_msec(&tr));
        // the property is observed through the library's own player as well (seed C12-23): positions at two interior
        // instants (not the midpoint) of every segment of the generated trajectory - the first 48 and the last ones reached
        // within 96 steps -, chosen here from the segment boundaries the player reports; printed as
        // "P <time bits> <rc> <x bits> <y bits> <z bits>" for the judge, which compares them with the ideal path
        sb_trajectory_player_t pl;
        memset(&pl, SBH_FILL, sizeof(pl));
        if (sb_trajectory_player_init(&pl, &tr) == SB_SUCCESS) {
            std::vector<float> ts;
            for (int seg = 0; seg < 96; seg++) {
                const sb_trajectory_segment_t* sg = sb_trajectory_player_get_current_segment(&pl);
                uint32_t st = sg->start_time_msec;
                uint32_t du = sg->duration_msec;
                if (du > 0 && (seg < 48 || !sb_trajectory_player_has_more_segments(&pl))) {
                    ts.push_back((float)(((double)st + 0.2 * (double)du) / 1000.0));
                    ts.push_back((float)(((double)st + 0.7 * (double)du) / 1000.0));
                }
                if (!sb_trajectory_player_has_more_segments(&pl)) break;
                if (sb_trajectory_player_build_next_segment(&pl) != SB_SUCCESS) break;
            }
            for (float tt : ts) {
                sb_vector3_with_yaw_t r;
                memset(&r, SBH_FILL, sizeof(r));
                sb_error_t qrc = sb_trajectory_player_get_position_at(&pl, tt, &r);
                add(out, "P");
                add(out, fbits(tt));
                add(out, (long long)qrc);
                add(out, fbits(r.x));
                add(out, fbits(r.y));
                add(out, fbits(r.z));
            }
            sb_trajectory_player_destroy(&pl);
        }
        sb_trajectory_destroy(&tr);
    }
}
