// C06 / C03 : the four loaders through both routes, query batteries, clear
#include <fcntl.h>
#include "sbh_common.hpp"
#include <sanitizer/asan_interface.h>
extern "C" {
#include <skybrush/lights.h>
#include <skybrush/rth_plan.h>
#include <skybrush/trajectory.h>
#include <skybrush/yaw_control.h>
}
#include <cmath>

static const float kTimes[] = { -INFINITY, -1.0f, 0.0f, 0.02f, 0.5f, 1.0f, 2.5f, 10.0f, 59.999f, 600.0f, 1e9f, INFINITY };
static const unsigned long kStamps[] = { 0, 1, 20, 500, 1000, 1001, 5000, 60000, 123456, 16777215 };

static std::string vec(const sb_vector3_with_yaw_t& v)
{
    return fbits(v.x) + "," + fbits(v.y) + "," + fbits(v.z) + "," + fbits(v.yaw);
}

static std::string battery_traj(sb_trajectory_t* tr)
{
    std::string s;
    sb_trajectory_player_t pl;
    if (sb_trajectory_player_init(&pl, tr) != SB_SUCCESS)
        return "playerinit";
    for (float tt : kTimes) {
        sb_vector3_with_yaw_t r;
        memset(&r, SBH_FILL, sizeof(r));
        sb_error_t rc = sb_trajectory_player_get_position_at(&pl, tt, &r);
        s += std::to_string((int)rc) + ":" + vec(r) + ";";
        rc = sb_trajectory_player_get_velocity_at(&pl, tt, &r);
        s += std::to_string((int)rc) + ":" + vec(r) + ";";
        rc = sb_trajectory_player_get_acceleration_at(&pl, tt, &r);
        s += std::to_string((int)rc) + ":" + vec(r) + ";";
    }
    sb_trajectory_player_destroy(&pl);
    s += "D" + std::to_string(sb_trajectory_get_total_duration_msec(tr));
    s += "E" + std::to_string((int)sb_trajectory_is_empty(tr));
    sb_bounding_box_t box;
    memset(&box, SBH_FILL, sizeof(box));
    sb_error_t rc = sb_trajectory_get_axis_aligned_bounding_box(tr, &box);
    s += "B" + std::to_string((int)rc) + ":" + fbits(box.x.min) + "," + fbits(box.x.max) + "," + fbits(box.y.min) + "," + fbits(box.y.max) + "," + fbits(box.z.min) + "," + fbits(box.z.max);
    s += "T" + fbits(sb_trajectory_propose_takeoff_time_sec(tr, 2.5f, 1.0f, 4.0f));
    s += "L" + fbits(sb_trajectory_propose_landing_time_sec(tr, 2.5f, 0.05f));
    return s;
}

static std::string battery_light(sb_light_program_t* prog, bool with_next)
{
    std::string s;
    sb_light_player_t pl;
    if (sb_light_player_init(&pl, prog) != SB_SUCCESS)
        return "playerinit";
    for (unsigned long ts : kStamps) {
        sb_rgb_color_t c = sb_light_player_get_color_at(&pl, ts);
        s += std::to_string(c.red) + "," + std::to_string(c.green) + "," + std::to_string(c.blue) + ",";
        s += std::to_string(sb_light_player_get_pyro_channels_at(&pl, ts)) + ",";
        unsigned long next = 0;
        s += std::to_string((int)sb_light_player_seek(&pl, ts, &next));
        if (with_next)
            s += "," + std::to_string(next);
        s += ";";
    }
    // and backwards
    sb_rgb_color_t c = sb_light_player_get_color_at(&pl, 20);
    s += std::to_string(c.red) + "," + std::to_string(c.green) + "," + std::to_string(c.blue);
    sb_light_player_destroy(&pl);
    return s;
}

static std::string battery_yaw(sb_yaw_control_t* ctrl)
{
    std::string s;
    sb_yaw_player_t pl;
    if (sb_yaw_player_init(&pl, ctrl) != SB_SUCCESS)
        return "playerinit";
    for (float tt : kTimes) {
        float r = 0;
        sb_error_t rc = sb_yaw_player_get_yaw_at(&pl, tt, &r);
        s += std::to_string((int)rc) + ":" + fbits(r) + ";";
        rc = sb_yaw_player_get_yaw_rate_at(&pl, tt, &r);
        s += std::to_string((int)rc) + ":" + fbits(r) + ";";
    }
    uint32_t ms = 0;
    sb_error_t rc = sb_yaw_player_get_total_duration_msec(&pl, &ms);
    s += "D" + std::to_string((int)rc) + ":" + std::to_string(ms);
    s += "H" + std::to_string((int)ctrl->auto_yaw) + "," + std::to_string((int)ctrl->yaw_offset_ddeg) + "," + std::to_string(ctrl->num_deltas);
    sb_yaw_player_destroy(&pl);
    return s;
}

static std::string battery_rth(sb_rth_plan_t* plan)
{
    std::string s;
    s += "M" + std::to_string((int)plan->scale) + "," + std::to_string(sb_rth_plan_get_num_points(plan)) + "," + std::to_string(sb_rth_plan_get_num_entries(plan)) + ";";
    size_t np = sb_rth_plan_get_num_points(plan);
    for (size_t i = 0; i < np + 1 && i < 40; i++) {
        sb_vector2_t pt = { 0, 0 };
        sb_error_t rc = sb_rth_plan_get_point(plan, i, &pt);
        s += std::to_string((int)rc) + ":" + fbits(pt.x) + "," + fbits(pt.y) + ";";
    }
    for (float tt : kTimes) {
        sb_rth_plan_entry_t e;
        memset(&e, SBH_FILL, sizeof(e));
        sb_error_t rc = sb_rth_plan_evaluate_at(plan, tt, &e);
        s += std::to_string((int)rc);
        if (rc == SB_SUCCESS) {
            s += ":" + fbits(e.time_sec) + "," + std::to_string((int)e.action) + "," + fbits(e.duration_sec) + "," + fbits(e.target.x) + "," + fbits(e.target.y) + "," + fbits(e.target_altitude) + "," + fbits(e.pre_delay_sec) + "," + fbits(e.post_delay_sec) + "," + fbits(e.pre_neck_mm) + "," + fbits(e.pre_neck_duration_sec);
            // convert the entry as well (C03: conversion of every evaluated entry)
            sb_trajectory_t tr;
            sb_vector3_with_yaw_t start = { 1000, -2000, 3000, 90 };
            sb_error_t crc = sb_trajectory_init_from_rth_plan_entry(&tr, &e, start);
            s += "c" + std::to_string((int)crc);
            if (crc == SB_SUCCESS) {
                s += "d" + std::to_string(sb_trajectory_get_total_duration_msec(&tr));
                sb_trajectory_destroy(&tr);
            }
        }
        s += ";";
    }
    return s;
}

static uint64_t fnv_str(const std::string& s)
{
    uint64_t h = 14695981039346656037ULL;
    for (unsigned char c : s) {
        h ^= c;
        h *= 1099511628211ULL;
    }
    return h;
}

// one route: returns tokens "rc [Bhex Oowned Q<hash> C<hash>]" ; full battery text kept for diffs
struct RouteResult {
    int rc = -1;
    std::string bytes, battery, cleared;
    int owned = -1;
    std::string memnote;  // memory route only: the caller's bytes were written to
    std::string fdnote;   // descriptor route only: what happened to the caller's descriptor ("" = nothing)
};

// a second load through the same descriptor (rewound by the caller): rc and block bytes only
static void reload_fd(char kind, int fd, int* rc, std::string* bytes)
{
    if (kind == 't') {
        sb_trajectory_t tr;
        memset(&tr, SBH_FILL, sizeof(tr));
        *rc = sb_trajectory_init_from_binary_file(&tr, fd);
        if (*rc == SB_SUCCESS) {
            *bytes = hex(SB_BUFFER(tr.buffer), sb_buffer_size(&tr.buffer));
            sb_trajectory_destroy(&tr);
        }
    } else if (kind == 'l') {
        sb_light_program_t prog;
        memset(&prog, SBH_FILL, sizeof(prog));
        *rc = sb_light_program_init_from_binary_file(&prog, fd);
        if (*rc == SB_SUCCESS) {
            *bytes = hex(SB_BUFFER(prog.buffer), sb_buffer_size(&prog.buffer));
            sb_light_program_destroy(&prog);
        }
    } else if (kind == 'y') {
        sb_yaw_control_t ctrl;
        memset(&ctrl, SBH_FILL, sizeof(ctrl));
        *rc = sb_yaw_control_init_from_binary_file(&ctrl, fd);
        if (*rc == SB_SUCCESS) {
            *bytes = hex(SB_BUFFER(ctrl.buffer), sb_buffer_size(&ctrl.buffer));
            sb_yaw_control_destroy(&ctrl);
        }
    } else {
        sb_rth_plan_t plan;
        memset(&plan, SBH_FILL, sizeof(plan));
        *rc = sb_rth_plan_init_from_binary_file(&plan, fd);
        if (*rc == SB_SUCCESS) {
            *bytes = hex(plan.buffer, plan.buffer_length);
            sb_rth_plan_destroy(&plan);
        }
    }
}

// the same for a load from memory: rc and block bytes only
static void reload_mem(char kind, uint8_t* p, size_t n, int* rc, std::string* bytes)
{
    if (kind == 't') {
        sb_trajectory_t tr;
        memset(&tr, SBH_FILL, sizeof(tr));
        *rc = sb_trajectory_init_from_binary_file_in_memory(&tr, p, n);
        if (*rc == SB_SUCCESS) {
            *bytes = hex(SB_BUFFER(tr.buffer), sb_buffer_size(&tr.buffer));
            sb_trajectory_destroy(&tr);
        }
    } else if (kind == 'l') {
        sb_light_program_t prog;
        memset(&prog, SBH_FILL, sizeof(prog));
        *rc = sb_light_program_init_from_binary_file_in_memory(&prog, p, n);
        if (*rc == SB_SUCCESS) {
            *bytes = hex(SB_BUFFER(prog.buffer), sb_buffer_size(&prog.buffer));
            sb_light_program_destroy(&prog);
        }
    } else if (kind == 'y') {
        sb_yaw_control_t ctrl;
        memset(&ctrl, SBH_FILL, sizeof(ctrl));
        *rc = sb_yaw_control_init_from_binary_file_in_memory(&ctrl, p, n);
        if (*rc == SB_SUCCESS) {
            *bytes = hex(SB_BUFFER(ctrl.buffer), sb_buffer_size(&ctrl.buffer));
            sb_yaw_control_destroy(&ctrl);
        }
    } else {
        sb_rth_plan_t plan;
        memset(&plan, SBH_FILL, sizeof(plan));
        *rc = sb_rth_plan_init_from_binary_file_in_memory(&plan, p, n);
        if (*rc == SB_SUCCESS) {
            *bytes = hex(plan.buffer, plan.buffer_length);
            sb_rth_plan_destroy(&plan);
        }
    }
}

// A caller that keeps ONE working buffer: other bytes of the same length were loaded from the same address just before
// (the previous case's file when it has this length, else this file with one byte changed). What a load answers is a
// function of the bytes it is given now, so this load must agree with the one from a fresh buffer.
static std::string reused_buffer_note(char kind, const std::vector<uint8_t>& file, int rc_fresh, const std::string& bytes_fresh)
{
    static const size_t cap = 1u << 21;
    static uint8_t* work = (uint8_t*)malloc(cap);
    static std::vector<uint8_t> last;
    size_t n = file.size();
    if (!work || n == 0 || n > cap)
        return "";
    std::vector<uint8_t> prev = (last.size() == n && last != file) ? last : file;
    if (prev == file)
        prev[(n * 7) / 11] ^= 0x04;
    last = file;
    ASAN_UNPOISON_MEMORY_REGION(work, cap);
    memcpy(work, prev.data(), n);
    ASAN_POISON_MEMORY_REGION(work + n, cap - n);
    int rc0 = -1, rc1 = -1;
    std::string b0, b1;
    reload_mem(kind, work, n, &rc0, &b0);
    memcpy(work, file.data(), n);
    reload_mem(kind, work, n, &rc1, &b1);
    ASAN_UNPOISON_MEMORY_REGION(work, cap);
    if (rc1 != rc_fresh)
        return "a-reused-caller-buffer-loads-with-rc=" + std::to_string(rc1);
    if (rc1 == SB_SUCCESS && b1 != bytes_fresh)
        return "a-reused-caller-buffer-loads-other-bytes";
    return "";
}

static RouteResult run_route(char kind, bool mem, const std::vector<uint8_t>& file)
{
    RouteResult r;
    ExactBuf* buf = nullptr;
    int fd = -1;
    if (mem)
        buf = new ExactBuf(file);
    else
        fd = make_fd(file);
    if (kind == 't') {
        sb_trajectory_t tr;
        memset(&tr, SBH_FILL, sizeof(tr));
        r.rc = mem ? sb_trajectory_init_from_binary_file_in_memory(&tr, buf->p, buf->n) : sb_trajectory_init_from_binary_file(&tr, fd);
        if (mem && buf->n && memcmp(buf->p, file.data(), buf->n) != 0)
            r.memnote = "the-caller's-buffer-was-modified-by-loading";
        if (r.rc == SB_SUCCESS) {
            r.bytes = hex(SB_BUFFER(tr.buffer), sb_buffer_size(&tr.buffer));
            r.owned = !sb_buffer_is_view(&tr.buffer);
            r.battery = battery_traj(&tr);
            // the same for a trajectory player made before the trajectory is cleared
            sb_trajectory_player_t livep;
            bool have_livep = sb_trajectory_player_init(&livep, &tr) == SB_SUCCESS;
            sb_vector3_with_yaw_t lv;
            if (have_livep)
                (void)sb_trajectory_player_get_position_at(&livep, 1.0f, &lv);
            sb_error_t crc = sb_trajectory_clear(&tr);
            if (have_livep) {
                for (float tt : { 0.0f, 1.5f, 100.0f, 0.5f })
                    (void)sb_trajectory_player_get_position_at(&livep, tt, &lv);
                sb_trajectory_player_destroy(&livep);
            }
            r.cleared = std::to_string((int)crc) + "|" + battery_traj(&tr);
            sb_trajectory_destroy(&tr);
        }
    } else if (kind == 'l') {
        sb_light_program_t prog;
        memset(&prog, SBH_FILL, sizeof(prog));
        r.rc = mem ? sb_light_program_init_from_binary_file_in_memory(&prog, buf->p, buf->n) : sb_light_program_init_from_binary_file(&prog, fd);
        if (mem && buf->n && memcmp(buf->p, file.data(), buf->n) != 0)
            r.memnote = "the-caller's-buffer-was-modified-by-loading";
        if (r.rc == SB_SUCCESS) {
            r.bytes = hex(SB_BUFFER(prog.buffer), sb_buffer_size(&prog.buffer));
            r.owned = !sb_buffer_is_view(&prog.buffer);
            r.battery = battery_light(&prog, true);
            // a player made before the program is cleared may go on being asked: whatever it answers (not compared), it must
            // not touch memory the library has released
            sb_light_player_t live;
            bool have_live = sb_light_player_init(&live, &prog) == SB_SUCCESS;
            if (have_live)
                (void)sb_light_player_get_color_at(&live, 10);
            sb_light_program_clear(&prog);
            std::string live_ans;
            if (have_live) {
                // ... and the two routes answer alike: clearing does not touch the bytes the player is reading
                for (unsigned long ts : { 0UL, 20UL, 1000UL, 10000UL, 60000UL, 5UL }) {
                    sb_rgb_color_t c = sb_light_player_get_color_at(&live, ts);
                    live_ans += std::to_string(c.red) + "," + std::to_string(c.green) + "," + std::to_string(c.blue) + ","
                        + std::to_string(sb_light_player_get_pyro_channels_at(&live, ts)) + ";";
                }
                sb_light_player_destroy(&live);
            }
            r.cleared = battery_light(&prog, true) + "|live:" + live_ans;
            sb_light_program_destroy(&prog);
        }
    } else if (kind == 'y') {
        sb_yaw_control_t ctrl;
        memset(&ctrl, SBH_FILL, sizeof(ctrl));
        r.rc = mem ? sb_yaw_control_init_from_binary_file_in_memory(&ctrl, buf->p, buf->n) : sb_yaw_control_init_from_binary_file(&ctrl, fd);
        if (mem && buf->n && memcmp(buf->p, file.data(), buf->n) != 0)
            r.memnote = "the-caller's-buffer-was-modified-by-loading";
        if (r.rc == SB_SUCCESS) {
            r.bytes = hex(SB_BUFFER(ctrl.buffer), sb_buffer_size(&ctrl.buffer));
            r.owned = !sb_buffer_is_view(&ctrl.buffer);
            r.battery = battery_yaw(&ctrl);
            sb_yaw_control_destroy(&ctrl);
        }
    } else {
        sb_rth_plan_t plan;
        memset(&plan, SBH_FILL, sizeof(plan));
        r.rc = mem ? sb_rth_plan_init_from_binary_file_in_memory(&plan, buf->p, buf->n) : sb_rth_plan_init_from_binary_file(&plan, fd);
        if (mem && buf->n && memcmp(buf->p, file.data(), buf->n) != 0)
            r.memnote = "the-caller's-buffer-was-modified-by-loading";
        if (r.rc == SB_SUCCESS) {
            r.bytes = hex(plan.buffer, plan.buffer_length);
            r.owned = plan.owner;
            r.battery = battery_rth(&plan);
            sb_rth_plan_destroy(&plan);
        }
    }
    if (fd >= 0) {
        // the descriptor stays the caller's: still open, and the same bytes load the same way through it again
        if (fcntl(fd, F_GETFD) == -1) {
            r.fdnote = "descriptor-closed-by-the-library";
        } else {
            int rc2 = -1;
            std::string bytes2;
            lseek(fd, 0, SEEK_SET);
            reload_fd(kind, fd, &rc2, &bytes2);
            if (rc2 != r.rc)
                r.fdnote = "second-load-through-the-same-descriptor-rc=" + std::to_string(rc2);
            else if (rc2 == SB_SUCCESS && bytes2 != r.bytes)
                r.fdnote = "second-load-through-the-same-descriptor-gives-other-bytes";
            else if (fcntl(fd, F_GETFD) == -1)
                r.fdnote = "descriptor-closed-by-the-library";
            else {
                // any valid descriptor number will do, 0 included (what open() returns once stdin is closed)
                int saved0 = dup(0);
                if (dup2(fd, 0) == 0) {
                    int rc3 = -1;
                    std::string bytes3;
                    lseek(0, 0, SEEK_SET);
                    reload_fd(kind, 0, &rc3, &bytes3);
                    if (rc3 != r.rc || (rc3 == SB_SUCCESS && bytes3 != r.bytes))
                        r.fdnote = "load-through-descriptor-number-0-rc=" + std::to_string(rc3);
                    if (saved0 >= 0)
                        dup2(saved0, 0);
                    else
                        close(0);
                }
                if (saved0 >= 0)
                    close(saved0);
            }
        }
        if (r.fdnote.empty())
            close(fd);
    }
    delete buf;
    return r;
}

// load2 <kind t|l|y|r> <hex> -> rcF rcM [bytesF bytesM ownedF ownedM sameBattery sameCleared]
SB_OP(load2)
{
    auto v = unhex(t[3]);
    char kind = t[2][0];
    RouteResult f = run_route(kind, false, v);
    RouteResult m = run_route(kind, true, v);
    if (m.memnote.empty())
        m.memnote = reused_buffer_note(kind, v, m.rc, m.bytes);
    add(out, f.fdnote.empty() ? std::to_string(f.rc) : std::to_string(f.rc) + "!" + f.fdnote);
    add(out, m.memnote.empty() ? std::to_string(m.rc) : std::to_string(m.rc) + "!" + m.memnote);
    if (f.rc == SB_SUCCESS && m.rc == SB_SUCCESS) {
        add(out, f.bytes);
        add(out, m.bytes);
        add(out, (long long)f.owned);
        add(out, (long long)m.owned);
        add(out, f.battery == m.battery ? "same" : ("DIFF[" + f.battery.substr(0, 400) + "]vs[" + m.battery.substr(0, 400) + "]"));
        add(out, f.cleared == m.cleared ? "same" : ("DIFF[" + f.cleared.substr(0, 300) + "]vs[" + m.cleared.substr(0, 300) + "]"));
        addu(out, fnv_str(f.battery));
    }
}
