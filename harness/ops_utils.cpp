// C20 : utilities (travel time, scale update, seconds->ms, interval/box expand, colour
// interpolation, RGBW conversions, growable buffer)
#include "sbh_common.hpp"
extern "C" {
#include <skybrush/buffer.h>
#include <skybrush/colors.h>
#include <skybrush/utils.h>
}

static unsigned long tokul(const std::string& s) { return strtoul(s.c_str(), nullptr, 10); }

// tt d v a -> bits
SB_OP(tt)
{
    add(out, fbits(sb_get_travel_time_for_distance(tokf(t[2]), tokf(t[3]), tokf(t[4]))));
}
// scale s x y z -> rc newscale
SB_OP(scale)
{
    uint8_t s = (uint8_t)tokul(t[2]);
    sb_vector3_with_yaw_t p = { tokf(t[3]), tokf(t[4]), tokf(t[5]), 0 };
    sb_error_t rc = sb_scale_update_vector3_with_yaw(&s, p);
    add(out, (long long)rc);
    add(out, (long long)s);
    // the 2-D and altitude variants must agree with the 3-D one on their coordinates
    uint8_t s2 = (uint8_t)tokul(t[2]);
    sb_vector2_t p2 = { tokf(t[3]), tokf(t[4]) };
    sb_error_t rc2 = sb_scale_update_vector2(&s2, p2);
    uint8_t s3 = s2;
    sb_error_t rc3 = rc2 == SB_SUCCESS ? sb_scale_update_altitude(&s3, tokf(t[5])) : rc2;
    add(out, (long long)rc3);
    add(out, (long long)s3);
}
// ms bits -> rc value
SB_OP(ms)
{
    uint32_t r = 0xdeadbeef;
    sb_error_t rc = sb_uint32_msec_duration_from_float_seconds(&r, tokf(t[2]));
    add(out, (long long)rc);
    addu(out, rc == SB_SUCCESS ? r : 0);
}
// ivl min max off -> minbits maxbits ; and the same through a bounding box
SB_OP(ivl)
{
    sb_interval_t iv = { tokf(t[2]), tokf(t[3]) };
    sb_interval_expand(&iv, tokf(t[4]));
    add(out, fbits(iv.min));
    add(out, fbits(iv.max));
    sb_bounding_box_t box = { { tokf(t[2]), tokf(t[3]) }, { tokf(t[2]), tokf(t[3]) }, { tokf(t[2]), tokf(t[3]) } };
    sb_bounding_box_expand(&box, tokf(t[4]));
    bool same = f2b(box.x.min) == f2b(iv.min) && f2b(box.y.min) == f2b(iv.min) && f2b(box.z.min) == f2b(iv.min)
        && f2b(box.x.max) == f2b(iv.max) && f2b(box.y.max) == f2b(iv.max) && f2b(box.z.max) == f2b(iv.max);
    add(out, same ? 1 : 0);
}
// lerp r1 g1 b1 r2 g2 b2 ratiobits -> r g b
SB_OP(lerp)
{
    sb_rgb_color_t a = { (uint8_t)tokul(t[2]), (uint8_t)tokul(t[3]), (uint8_t)tokul(t[4]) };
    sb_rgb_color_t b = { (uint8_t)tokul(t[5]), (uint8_t)tokul(t[6]), (uint8_t)tokul(t[7]) };
    sb_rgb_color_t c = sb_rgb_color_linear_interpolation(a, b, tokf(t[8]));
    addu(out, c.red);
    addu(out, c.green);
    addu(out, c.blue);
}
// lerp_all f s : for all ratios k/64, k=0..64 and all pairs? (f fixed): FNV hash over results for s=0..255
SB_OP(lerp_row)
{
    uint8_t f = (uint8_t)tokul(t[2]);
    // every answer goes to the judge (the property fixes the end points and the range, not the rounding inside)
    std::vector<uint8_t> all;
    all.reserve(256 * 33);
    for (int s = 0; s < 256; s++)
        for (int k = 0; k <= 32; k++) {
            sb_rgb_color_t a = { f, f, f };
            sb_rgb_color_t b = { (uint8_t)s, (uint8_t)s, (uint8_t)s };
            sb_rgb_color_t c = sb_rgb_color_linear_interpolation(a, b, k / 32.0f);
            all.push_back(c.red);
        }
    add(out, hex(all.data(), all.size()));
}
// rgbw m r g b [fixed | rr rg rb] -> r g b w     m: s=subtract min, f=fixed value, r=reference colour
SB_OP(rgbw)
{
    sb_rgbw_conversion_t conv;
    memset(&conv, SBH_FILL, sizeof(conv));
    sb_rgb_color_t c = { (uint8_t)tokul(t[3]), (uint8_t)tokul(t[4]), (uint8_t)tokul(t[5]) };
    if (t[2] == "s")
        sb_rgbw_conversion_use_min_subtraction(&conv);
    else if (t[2] == "f")
        sb_rgbw_conversion_use_fixed_value(&conv, (uint8_t)tokul(t[6]));
    else {
        sb_rgb_color_t ref = { (uint8_t)tokul(t[6]), (uint8_t)tokul(t[7]), (uint8_t)tokul(t[8]) };
        sb_rgbw_conversion_use_reference_color(&conv, ref);
    }
    sb_rgbw_color_t r = sb_rgb_color_to_rgbw(c, conv);
    addu(out, r.red);
    addu(out, r.green);
    addu(out, r.blue);
    addu(out, r.white);
}
// rgbw_all m [params] : hash over all 2^24 colours is too slow line by line; per red value
SB_OP(rgbw_row)
{
    sb_rgbw_conversion_t conv;
    memset(&conv, SBH_FILL, sizeof(conv));
    uint8_t red = (uint8_t)tokul(t[3]);
    if (t[2] == "s")
        sb_rgbw_conversion_use_min_subtraction(&conv);
    else {
        sb_rgb_color_t ref = { (uint8_t)tokul(t[4]), (uint8_t)tokul(t[5]), (uint8_t)tokul(t[6]) };
        sb_rgbw_conversion_use_reference_color(&conv, ref);
    }
    uint64_t h = 14695981039346656037ULL;
    std::vector<uint8_t> all;
    bool dump = t[2] != "s";  // float arithmetic: every answer goes to the judge; min subtraction is exact integer arithmetic
    if (dump)
        all.reserve(4 * 65536);
    for (int g = 0; g < 256; g++)
        for (int b = 0; b < 256; b++) {
            sb_rgb_color_t c = { red, (uint8_t)g, (uint8_t)b };
            sb_rgbw_color_t r = sb_rgb_color_to_rgbw(c, conv);
            uint32_t v = r.red | (r.green << 8) | (r.blue << 16) | ((uint32_t)r.white << 24);
            for (int i = 0; i < 4; i++) {
                h ^= (v >> (8 * i)) & 0xff;
                h *= 1099511628211ULL;
                if (dump)
                    all.push_back((v >> (8 * i)) & 0xff);
            }
        }
    if (dump)
        add(out, hex(all.data(), all.size()));
    else
        addu(out, h);
}

// rgbwseq step... : one conversion object through a sequence of set-up calls and conversions
//   s | o | f<v> | r<r>,<g>,<b> | t<floatbits> | c<r>,<g>,<b>
//   t answers T<r>,<g>,<b>,<r'>,<g'>,<b'> : the black-body colour of the temperature and of the temperature clamped to 1000..40000 K
//   c answers C<r>,<g>,<b>,<w>
SB_OP(rgbwseq)
{
    sb_rgbw_conversion_t conv;
    // there is no init function: an object that was never set up is a zero-initialised one (`= {0}`), and the sequences
    // may convert before any set-up call
    memset(&conv, 0, sizeof(conv));
    for (size_t i = 2; i < t.size(); i++) {
        const std::string& st = t[i];
        unsigned a = 0, b = 0, c = 0;
        char buf[96];
        switch (st[0]) {
        case 's':
            sb_rgbw_conversion_use_min_subtraction(&conv);
            break;
        case 'o':
            sb_rgbw_conversion_turn_off(&conv);
            break;
        case 'f':
            sb_rgbw_conversion_use_fixed_value(&conv, (uint8_t)strtoul(st.c_str() + 1, nullptr, 10));
            break;
        case 'r': {
            sscanf(st.c_str() + 1, "%u,%u,%u", &a, &b, &c);
            sb_rgb_color_t ref = { (uint8_t)a, (uint8_t)b, (uint8_t)c };
            sb_rgbw_conversion_use_reference_color(&conv, ref);
            break;
        }
        case 't': {
            float temp = tokf(st.substr(1));
            sb_rgb_color_t bb = sb_rgb_color_from_color_temperature(temp);
            float cl = temp < 1000 ? 1000.0f : (temp > 40000 ? 40000.0f : temp);
            sb_rgb_color_t bc = sb_rgb_color_from_color_temperature(cl);
            sb_rgbw_conversion_use_color_temperature(&conv, temp);
            snprintf(buf, sizeof buf, "T%u,%u,%u,%u,%u,%u", bb.red, bb.green, bb.blue, bc.red, bc.green, bc.blue);
            add(out, std::string(buf));
            break;
        }
        case 'c': {
            sscanf(st.c_str() + 1, "%u,%u,%u", &a, &b, &c);
            sb_rgb_color_t col = { (uint8_t)a, (uint8_t)b, (uint8_t)c };
            sb_rgbw_color_t r = sb_rgb_color_to_rgbw(col, conv);
            snprintf(buf, sizeof buf, "C%u,%u,%u,%u", r.red, r.green, r.blue, r.white);
            add(out, std::string(buf));
            break;
        }
        default:
            add(out, std::string("?"));
        }
    }
}

// bufops o<n>|v<hex> ops...
SB_OP(bufops)
{
    sb_buffer_t buf;
    memset(&buf, SBH_FILL, sizeof(buf));
    ExactBuf* view = nullptr;
    std::vector<uint8_t> orig;
    if (t[2][0] == 'o') {
        sb_error_t rc = sb_buffer_init(&buf, tokul(t[2].substr(1)));
        add(out, (long long)rc);
        if (rc != SB_SUCCESS)
            return;
    } else {
        orig = unhex(t[2].substr(1));
        view = new ExactBuf(orig);
        sb_buffer_init_view(&buf, view->p, view->n);
        add(out, "0");
    }
    auto state = [&](sb_error_t rc) {
        size_t size = sb_buffer_size(&buf);
        add(out, std::to_string((int)rc) + ":" + std::to_string(size) + ":" + std::to_string(sb_buffer_capacity(&buf)) + ":" + std::to_string((int)sb_buffer_is_view(&buf)) + ":" + hex(SB_BUFFER(buf), size));
    };
    state(SB_SUCCESS);
    for (size_t i = 3; i < t.size(); i++) {
        char k = t[i][0];
        std::string a = t[i].substr(1);
        sb_error_t rc = SB_SUCCESS;
        if (k == 'a') {
            auto v = unhex(a);
            static const uint8_t dummy = 0;
            rc = sb_buffer_append_bytes(&buf, v.empty() ? &dummy : v.data(), v.size());
        } else if (k == 'b') {
            rc = sb_buffer_append_byte(&buf, (uint8_t)tokul(a));
        } else if (k == 'z') {
            rc = sb_buffer_extend_with_zeros(&buf, tokul(a));
        } else if (k == 'r') {
            rc = sb_buffer_resize(&buf, tokul(a));
        } else if (k == 'c') {
            rc = sb_buffer_clear(&buf);
        } else if (k == 'p') {
            rc = sb_buffer_prune(&buf);
        } else if (k == 'f') {
            sb_buffer_fill(&buf, (uint8_t)tokul(a));
        } else if (k == 'k') {
            auto v = unhex(a);
            ExactBuf other(v);
            sb_buffer_t ob;
            sb_buffer_init_view(&ob, other.p, other.n);
            rc = sb_buffer_concat(&buf, &ob);
        }
        state(rc);
    }
    sb_buffer_destroy(&buf);
    delete view;
}

// ttmono v a d1 d2 ... (ascending distances) -> the times, for the monotonicity clause
SB_OP(ttmono)
{
    for (size_t i = 4; i < t.size(); i++)
        add(out, fbits(sb_get_travel_time_for_distance(tokf(t[i]), tokf(t[2]), tokf(t[3]))));
}
