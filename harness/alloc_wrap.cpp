// Allocation ledger for C17: the linker's --wrap redirects the library's (and the harness')
// calls of malloc/calloc/realloc/free here.  Only events that happen while g_track is set (inside
// a library call) are recorded; the k-th tracked allocation can be made to fail.
#include <cstddef>
#include <cstdio>
#include <cstdlib>
#include <map>
#include <set>

extern "C" {
void* __real_malloc(size_t);
void* __real_calloc(size_t, size_t);
void* __real_realloc(void*, size_t);
void __real_free(void*);
}

volatile bool g_track = false; // volatile: the compiler knows free()/malloc() do not read globals
long g_alloc_count = 0; // tracked allocation attempts so far
long g_fail_at = 0; // 1-based index of the tracked allocation that fails (0 = none)
long g_failed = 0; // how many injected failures fired
static bool g_inside = false; // re-entrancy guard for the bookkeeping containers
std::set<void*>* g_live = nullptr; // blocks allocated by (or handed over to) the library, still live
long g_alien_free = 0; // frees of pointers the library does not own
long g_alien_realloc = 0;

static std::set<void*>& live()
{
    if (!g_live) {
        g_inside = true;
        g_live = new std::set<void*>();
        g_inside = false;
    }
    return *g_live;
}

static bool should_fail()
{
    g_alloc_count++;
    if (g_fail_at != 0 && g_alloc_count == g_fail_at) {
        g_failed++;
        return true;
    }
    return false;
}

static void note_alloc(void* p)
{
    if (!p)
        return;
    g_inside = true;
    live().insert(p);
    g_inside = false;
}

void ledger_adopt(void* p) { note_alloc(p); } // harness hands a block over to the library
long ledger_live() { return g_live ? (long)g_live->size() : 0; }
void ledger_reset()
{
    if (g_live) {
        g_inside = true;
        g_live->clear();
        g_inside = false;
    }
    g_alloc_count = 0;
    g_failed = 0;
    g_alien_free = 0;
    g_alien_realloc = 0;
}

extern "C" void* __wrap_malloc(size_t n)
{
    if (!g_track || g_inside)
        return __real_malloc(n);
    if (should_fail())
        return nullptr;
    void* p = __real_malloc(n);
    note_alloc(p);
    return p;
}

extern "C" void* __wrap_calloc(size_t a, size_t b)
{
    if (!g_track || g_inside)
        return __real_calloc(a, b);
    if (should_fail())
        return nullptr;
    void* p = __real_calloc(a, b);
    note_alloc(p);
    return p;
}

extern "C" void* __wrap_realloc(void* old, size_t n)
{
    if (!g_track || g_inside)
        return __real_realloc(old, n);
    if (should_fail())
        return nullptr; // the old block stays valid, as realloc promises
    bool alien = false;
    if (old) {
        g_inside = true;
        if (!live().erase(old)) {
            g_alien_realloc++;
            alien = true;
        }
        g_inside = false;
    }
    // a block the library does not own is recorded and left alone (the caller still owns it)
    void* p = alien ? __real_malloc(n ? n : 1) : __real_realloc(old, n);
    note_alloc(p);
    return p;
}

extern "C" void __wrap_free(void* p)
{
    if (!g_track || g_inside) {
        __real_free(p);
        return;
    }
    if (p) {
        g_inside = true;
        bool alien = !live().erase(p);
        g_inside = false;
        if (alien) {
            g_alien_free++; // recorded, not forwarded: the caller still owns that block
            return;
        }
    }
    __real_free(p);
}
