// C11 : RTH plan evaluation
#include "sbh_common.hpp"
extern "C" {
#include <skybrush/rth_plan.h>
}

// rth <hex> queries: m | p<i> | e<tbits>
SB_OP(rth)
{
    bool empty = t[2] == "-";
    auto v = empty ? std::vector<uint8_t>() : unhex(t[2]);
    ExactBuf view(v);
    sb_rth_plan_t plan;
    // an init function must not depend on what the object held before: the empty plan is made on dirty memory
    memset(&plan, empty ? 0xA5 : 0, sizeof(plan));
    sb_error_t rc = empty ? sb_rth_plan_init_empty(&plan) : sb_rth_plan_init_from_buffer(&plan, view.p, view.n);
    add(out, (long long)rc);
    if (rc != SB_SUCCESS)
        return;
    for (size_t i = 3; i < t.size(); i++) {
        const std::string& q = t[i];
        if (q[0] == 'm') {
            add(out, std::to_string((int)plan.scale) + "," + std::to_string(sb_rth_plan_get_num_points(&plan)) + "," + std::to_string(sb_rth_plan_get_num_entries(&plan)) + "," + std::to_string((int)sb_rth_plan_is_empty(&plan)));
        } else if (q[0] == 'p') {
            sb_vector2_t pt = { 0, 0 };
            sb_error_t qrc = sb_rth_plan_get_point(&plan, strtoul(q.c_str() + 1, nullptr, 10), &pt);
            add(out, std::to_string((int)qrc) + "," + fbits(pt.x) + "," + fbits(pt.y));
        } else if (q[0] == 'e') {
            sb_rth_plan_entry_t e;
            memset(&e, SBH_FILL, sizeof(e));
            sb_error_t qrc = sb_rth_plan_evaluate_at(&plan, tokf(q.substr(1)), &e);
            if (qrc != SB_SUCCESS)
                add(out, std::to_string((int)qrc));
            else
                add(out, "0," + fbits(e.time_sec) + "," + std::to_string((int)e.action) + "," + fbits(e.duration_sec) + "," + fbits(e.target.x) + "," + fbits(e.target.y) + "," + fbits(e.target_altitude) + "," + fbits(e.pre_delay_sec) + "," + fbits(e.post_delay_sec) + "," + fbits(e.pre_neck_mm) + "," + fbits(e.pre_neck_duration_sec));
        } else {
            add(out, "?");
        }
    }
    sb_rth_plan_destroy(&plan);
}
