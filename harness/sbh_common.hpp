#pragma once
// objects handed to init functions and output parameters are pre-filled with this byte: an init function must not depend
// on what the object held before, and a successful call must write every field of its result
#ifndef SBH_FILL
#define SBH_FILL 0xA5
#endif
#include <cstdint>
#include <cstdio>
#include <cstdlib>
#include <cstring>
#include <functional>
#include <map>
#include <string>
#include <unistd.h>
#include <vector>

typedef std::vector<std::string> Toks;

extern std::string g_current_id;
extern unsigned g_watchdog_s;
void on_alarm(int);

Toks split(const char* line);
std::vector<uint8_t> unhex(const std::string& s);
std::string hex(const uint8_t* p, size_t n);
inline std::string hex(const std::vector<uint8_t>& v) { return hex(v.data(), v.size()); }
uint32_t f2b(float f);
float b2f(uint32_t b);
std::string fbits(float f); // decimal uint32 of the bit pattern
float tokf(const std::string& s); // parse decimal uint32 bit pattern -> float

// An exactly-sized heap copy (ASan red zones on both sides); size 0 -> 1-byte block whose
// byte is poisoned by convention (never legitimately read).
struct ExactBuf {
    uint8_t* p;
    size_t n;
    explicit ExactBuf(const std::vector<uint8_t>& v);
    ExactBuf(const uint8_t* q, size_t n);
    ~ExactBuf();
    ExactBuf(const ExactBuf&) = delete;
};

// memfd-backed regular file holding the bytes; fd positioned at 0
int make_fd(const std::vector<uint8_t>& v);

typedef std::function<void(const Toks&, std::string&)> OpFn;
struct OpRegistrar {
    OpRegistrar(const char* name, OpFn fn);
};
bool dispatch(const Toks& t, std::string& out);

#define SB_OP(name)                                             \
    static void op_##name(const Toks& t, std::string& out);     \
    static OpRegistrar reg_##name(#name, op_##name);            \
    static void op_##name(const Toks& t, std::string& out)

inline void add(std::string& out, const std::string& s)
{
    if (!out.empty())
        out += ' ';
    out += s;
}
inline void add(std::string& out, long long v) { add(out, std::to_string(v)); }
inline void addu(std::string& out, unsigned long long v) { add(out, std::to_string(v)); }
