// C02 / C09 : light player driven through seek histories
#include "sbh_common.hpp"
extern "C" {
#include <skybrush/lights.h>
}

// lightq <hex> t1 t2 ... : one player, one seek per timestamp (sb_light_player_seek), colour and
// pyro read right after that seek WITHOUT another seek (through a second seek the state could
// advance by zero-duration commands).  For each timestamp also a fresh player's answer.
struct Obs {
    int r, g, b, pyro, ended;
    unsigned long next;
};

// read the state after a seek without seeking again: the public getters re-seek, so we use
// sb_light_player_seek only and read colour/pyro through a seek-free path:
// get_color_at(t) = seek(t) + currentColor, so call it FIRST (it performs the one seek of this
// query), then obtain 'ended'/'next' from the player struct.
static Obs observe(sb_light_player_t* pl, unsigned long t, int mode)
{
    Obs o;
    memset(&o, SBH_FILL, sizeof(o));
    if (mode == 0) {
        // one seek through sb_light_player_seek; colour/pyro are not observable without a further
        // seek through the C API, so they are taken from a second player state copy: not possible.
        // => mode 0 observes ended/next only.
        unsigned long next = 0;
        o.ended = sb_light_player_seek(pl, t, &next);
        o.next = next;
        o.r = o.g = o.b = o.pyro = -1;
    } else if (mode == 1) {
        sb_rgb_color_t c = sb_light_player_get_color_at(pl, t);
        o.r = c.red;
        o.g = c.green;
        o.b = c.blue;
        o.pyro = -1;
        o.ended = -1;
        o.next = pl->next_timestamp;
    } else {
        o.pyro = sb_light_player_get_pyro_channels_at(pl, t);
        o.r = o.g = o.b = -1;
        o.ended = -1;
        o.next = pl->next_timestamp;
    }
    return o;
}

static std::string fmt(const Obs& o)
{
    return std::to_string(o.r) + "," + std::to_string(o.g) + "," + std::to_string(o.b) + "," + std::to_string(o.pyro) + "," + std::to_string(o.ended) + "," + std::to_string(o.next);
}

// queries: s<t> = sb_light_player_seek, c<t> = get_color_at, y<t> = get_pyro_channels_at
SB_OP(lightq)
{
    auto v = unhex(t[2]);
    ExactBuf view(v);
    sb_light_program_t prog;
    memset(&prog, SBH_FILL, sizeof(prog));
    sb_error_t rc = sb_light_program_init_from_buffer(&prog, view.p, view.n);
    add(out, (long long)rc);
    if (rc != SB_SUCCESS)
        return;
    sb_light_player_t pl;
    rc = sb_light_player_init(&pl, &prog);
    add(out, (long long)rc);
    if (rc != SB_SUCCESS) {
        sb_light_program_destroy(&prog);
        return;
    }
    for (size_t i = 3; i < t.size(); i++) {
        char k = t[i][0];
        unsigned long ts = strtoul(t[i].c_str() + 1, nullptr, 10);
        int mode = k == 's' ? 0 : k == 'c' ? 1 : 2;
        Obs h = observe(&pl, ts, mode);
        sb_light_player_t fr;
        sb_light_player_init(&fr, &prog);
        Obs f = observe(&fr, ts, mode);
        sb_light_player_destroy(&fr);
        add(out, fmt(h) + "/" + fmt(f));
    }
    sb_light_player_destroy(&pl);
    sb_light_program_destroy(&prog);
}
