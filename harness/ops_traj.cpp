// C01 / C07 / C08 / C10 : trajectory and yaw players driven through query histories
#include "sbh_common.hpp"
extern "C" {
#include <skybrush/trajectory.h>
#include <skybrush/yaw_control.h>
}
#include <cmath>

static std::string vec(const sb_vector3_with_yaw_t& v)
{
    return fbits(v.x) + "," + fbits(v.y) + "," + fbits(v.z) + "," + fbits(v.yaw);
}

// traj <mode> <hex> queries...
SB_OP(traj)
{
    auto v = unhex(t[3]);
    sb_trajectory_t traj;
    memset(&traj, SBH_FILL, sizeof(traj));
    ExactBuf* view = nullptr;
    sb_error_t rc;
    if (t[2] == "o") {
        uint8_t* copy = (uint8_t*)malloc(v.size() ? v.size() : 1);
        if (!v.empty())
            memcpy(copy, v.data(), v.size());
        rc = sb_trajectory_init_from_bytes(&traj, copy, v.size());
        if (rc != SB_SUCCESS)
            free(copy);
    } else {
        view = new ExactBuf(v);
        rc = sb_trajectory_init_from_buffer(&traj, view->p, view->n);
    }
    add(out, (long long)rc);
    if (rc != SB_SUCCESS) {
        delete view;
        return;
    }
    add(out, "H" + std::to_string((int)traj.scale) + "," + std::to_string((int)traj.use_yaw) + "," + vec(traj.start) + "," + std::to_string(traj.header_length));
    sb_trajectory_player_t player;
    sb_trajectory_player_init(&player, &traj);
    for (size_t i = 4; i < t.size(); i++) {
        const std::string& q = t[i];
        char k = q[0];
        if (k == 'p' || k == 'v' || k == 'a') {
            float tt = tokf(q.substr(1));
            sb_vector3_with_yaw_t r, rf;
            memset(&r, SBH_FILL, sizeof(r));
            memset(&rf, SBH_FILL, sizeof(rf));
            sb_trajectory_player_t fresh;
            sb_trajectory_player_init(&fresh, &traj);
            sb_error_t qrc, frc;
            if (k == 'p') {
                qrc = sb_trajectory_player_get_position_at(&player, tt, &r);
                frc = sb_trajectory_player_get_position_at(&fresh, tt, &rf);
            } else if (k == 'v') {
                qrc = sb_trajectory_player_get_velocity_at(&player, tt, &r);
                frc = sb_trajectory_player_get_velocity_at(&fresh, tt, &rf);
            } else {
                qrc = sb_trajectory_player_get_acceleration_at(&player, tt, &r);
                frc = sb_trajectory_player_get_acceleration_at(&fresh, tt, &rf);
            }
            bool same = qrc == frc && memcmp(&r, &rf, sizeof(r)) == 0;
            add(out, std::to_string((int)qrc) + "," + vec(r) + "," + std::to_string(player.current_segment.start) + "," + std::to_string(player.current_segment.length) + "," + (same ? "=" : "!"));
            sb_trajectory_player_destroy(&fresh);
        } else if (k == 'd') {
            uint32_t ms = 0;
            sb_error_t qrc = sb_trajectory_player_get_total_duration_msec(&player, &ms);
            add(out, std::to_string((int)qrc) + "," + std::to_string(ms) + "," + std::to_string(player.current_segment.start));
        } else if (k == 'D') {
            add(out, std::to_string(sb_trajectory_get_total_duration_msec(&traj)));
        } else if (k == 'E') {
            add(out, fbits(sb_trajectory_get_total_duration_sec(&traj)));
        } else if (k == 'S') {
            sb_trajectory_stats_calculator_t calc;
            sb_trajectory_stats_t stats;
            sb_trajectory_stats_calculator_init(&calc, 1.0f);
            sb_trajectory_stats_calculator_set_components(&calc, SB_TRAJECTORY_STATS_DURATION);
            sb_error_t qrc = sb_trajectory_stats_calculator_run(&calc, &traj, &stats);
            // the duration must not depend on which other statistics are requested with it
            bool agree = true;
            static const int masks[] = { 3, 5, 9, 7, 11, 13, 15 };
            for (int m : masks) {
                sb_trajectory_stats_calculator_t c2;
                sb_trajectory_stats_t s2;
                sb_trajectory_stats_calculator_init(&c2, 1.0f);
                c2.min_ascent = 0.5f; // reached early on most trajectories
                sb_trajectory_stats_calculator_set_components(&c2, (sb_trajectory_stat_components_t)m);
                sb_error_t r2 = sb_trajectory_stats_calculator_run(&c2, &traj, &s2);
                agree = agree && r2 == qrc && (r2 != SB_SUCCESS || s2.duration_msec == stats.duration_msec);
                sb_trajectory_stats_calculator_destroy(&c2);
            }
            add(out, std::to_string((int)qrc) + "," + std::to_string(stats.duration_msec) + "," + fbits(stats.duration_sec) + "," + (agree ? "=" : "!"));
            sb_trajectory_stats_calculator_destroy(&calc);
        } else if (k == 's' || k == 'e') {
            sb_vector3_with_yaw_t r;
            memset(&r, SBH_FILL, sizeof(r));
            sb_error_t qrc = k == 's' ? sb_trajectory_get_start_position(&traj, &r) : sb_trajectory_get_end_position(&traj, &r);
            add(out, std::to_string((int)qrc) + "," + vec(r));
        } else if (k == 'n' || k == 'w') {
            // the public cursor API as part of a history: step to the next segment / rewind
            sb_error_t qrc = k == 'n' ? sb_trajectory_player_build_next_segment(&player) : sb_trajectory_player_rewind(&player);
            add(out, std::to_string((int)qrc) + "," + std::to_string(player.current_segment.start) + "," + std::to_string(player.current_segment.length) + ","
                + std::to_string(sb_trajectory_player_has_more_segments(&player) ? 1 : 0));
        } else {
            add(out, "?");
        }
    }
    sb_trajectory_player_destroy(&player);
    sb_trajectory_destroy(&traj);
    delete view;
}

// yawq <hex> queries...   (view storage)
SB_OP(yawq)
{
    auto v = unhex(t[2]);
    sb_yaw_control_t ctrl;
    memset(&ctrl, SBH_FILL, sizeof(ctrl));
    ExactBuf view(v);
    sb_error_t rc = sb_yaw_control_init_from_buffer(&ctrl, view.p, view.n);
    add(out, (long long)rc);
    if (rc != SB_SUCCESS)
        return;
    add(out, "H" + std::to_string((int)ctrl.auto_yaw) + "," + std::to_string((int)ctrl.yaw_offset_ddeg) + "," + std::to_string(ctrl.num_deltas) + "," + std::to_string(ctrl.header_length) + "," + std::to_string((int)sb_yaw_control_is_empty(&ctrl)));
    sb_yaw_player_t player;
    sb_yaw_player_init(&player, &ctrl);
    for (size_t i = 3; i < t.size(); i++) {
        const std::string& q = t[i];
        char k = q[0];
        if (k == 'y' || k == 'r') {
            float tt = tokf(q.substr(1));
            float r = 0, rf = 0;
            sb_yaw_player_t fresh;
            sb_yaw_player_init(&fresh, &ctrl);
            sb_error_t qrc, frc;
            if (k == 'y') {
                qrc = sb_yaw_player_get_yaw_at(&player, tt, &r);
                frc = sb_yaw_player_get_yaw_at(&fresh, tt, &rf);
            } else {
                qrc = sb_yaw_player_get_yaw_rate_at(&player, tt, &r);
                frc = sb_yaw_player_get_yaw_rate_at(&fresh, tt, &rf);
            }
            bool same = qrc == frc && memcmp(&r, &rf, sizeof(r)) == 0;
            add(out, std::to_string((int)qrc) + "," + fbits(r) + "," + std::to_string(player.current_setpoint.start) + "," + std::to_string(player.current_setpoint.length) + "," + (same ? "=" : "!"));
            sb_yaw_player_destroy(&fresh);
        } else if (k == 'd') {
            uint32_t ms = 0;
            sb_error_t qrc = sb_yaw_player_get_total_duration_msec(&player, &ms);
            add(out, std::to_string((int)qrc) + "," + std::to_string(ms) + "," + std::to_string(player.current_setpoint.start));
        } else {
            add(out, "?");
        }
    }
    sb_yaw_player_destroy(&player);
    sb_yaw_control_destroy(&ctrl);
}
