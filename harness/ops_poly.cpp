// C18 : polynomial toolkit (construction, calculus, root finding, extrema)
#include "sbh_common.hpp"
extern "C" {
#include <skybrush/poly.h>
}
#include <cmath>

static std::string coeffs(const sb_poly_t& p)
{
    std::string s = std::to_string((int)p.num_coeffs);
    for (int i = 0; i < SB_MAX_POLY_COEFFS; i++)
        s += "," + fbits(p.coeffs[i]);
    return s;
}

static std::string dbits(double d)
{
    uint64_t b;
    memcpy(&b, &d, 8);
    return std::to_string((unsigned long long)b);
}

static std::vector<float> floats(const Toks& t, size_t from, size_t n)
{
    std::vector<float> v;
    for (size_t i = 0; i < n; i++)
        v.push_back(tokf(t[from + i]));
    return v;
}

static bool same4(const sb_poly_4d_t& a, const sb_poly_t& x, const sb_poly_t& y, const sb_poly_t& z, const sb_poly_t& w)
{
    return memcmp(&a.x, &x, sizeof(x)) == 0 && memcmp(&a.y, &y, sizeof(x)) == 0 && memcmp(&a.z, &z, sizeof(x)) == 0
        && memcmp(&a.yaw, &w, sizeof(x)) == 0;
}

// polymk <kind> args -> coefficients (num,c0..c7)
//   m n x0..x{n-1}      sb_poly_make
//   z | c x             make_zero / make_constant
//   l dur x0 x1         make_linear
//   b dur n x0..x{n-1}  make_bezier (+ the quadratic/cubic wrappers must agree: flag)
SB_OP(polymk)
{
    sb_poly_t p;
    memset(&p, 0x5a, sizeof(p));
    const std::string& k = t[2];
    if (k == "m") {
        size_t n = strtoul(t[3].c_str(), nullptr, 10);
        auto xs = floats(t, 4, n);
        xs.resize(n + 1);
        sb_poly_make(&p, xs.data(), (uint8_t)n);
        add(out, coeffs(p));
    } else if (k == "z") {
        sb_poly_make_zero(&p);
        add(out, coeffs(p));
    } else if (k == "c") {
        sb_poly_make_constant(&p, tokf(t[3]));
        add(out, coeffs(p));
    } else if (k == "l") {
        sb_poly_make_linear(&p, tokf(t[3]), tokf(t[4]), tokf(t[5]));
        add(out, coeffs(p));
    } else if (k == "b") {
        float dur = tokf(t[3]);
        size_t n = strtoul(t[4].c_str(), nullptr, 10);
        auto xs = floats(t, 5, n);
        xs.resize(n + 1);
        // make_bezier does not clear the structure for >= 3 points: start from zeros like the players do
        memset(&p, 0, sizeof(p));
        sb_poly_make_bezier(&p, dur, xs.data(), (uint8_t)n);
        add(out, coeffs(p));
        int agree = 1;
        if (n == 3) {
            sb_poly_t q;
            memset(&q, 0, sizeof(q));
            sb_poly_make_quadratic_bezier(&q, dur, xs[0], xs[1], xs[2]);
            agree = memcmp(&p, &q, sizeof(p)) == 0;
        } else if (n == 4) {
            sb_poly_t q;
            memset(&q, 0, sizeof(q));
            sb_poly_make_cubic_bezier(&q, dur, xs[0], xs[1], xs[2], xs[3]);
            agree = memcmp(&p, &q, sizeof(p)) == 0;
        }
        add(out, (long long)agree);
    }
}

// poly <n> c0..c{n-1} queries...   (every query starts from a fresh copy of the polynomial)
//   e<t>  eval float + eval_double          g  degree
//   d     deriv -> coefficients              k<f> scale   s<f> stretch   a<c> add_constant
//   S<y>  solve -> rc,num,roots..,flags      T<v> touches -> bool,result,flag
//   X     extrema -> rc,min,max             4<t> the 4-D wrappers agree with the 1-D functions
SB_OP(poly)
{
    size_t n = strtoul(t[2].c_str(), nullptr, 10);
    auto cs = floats(t, 3, n);
    cs.resize(SB_MAX_POLY_COEFFS + 2);
    sb_poly_t base;
    sb_poly_make(&base, cs.data(), (uint8_t)n);
    for (size_t i = 3 + n; i < t.size(); i++) {
        const std::string& q = t[i];
        char k = q[0];
        sb_poly_t p = base;
        if (k == 'e' || k == 'g' || k == 'S' || k == 'T' || k == 'X') {
            // the slots above num_coeffs are not part of the polynomial: sb_poly_make_bezier leaves whatever an earlier,
            // longer polynomial stored there (for 3 or more control points), so a polynomial in a reused object looks
            // like this; evaluation, degree, root finding and extrema must not look at them
            for (size_t j = p.num_coeffs; j < SB_MAX_POLY_COEFFS; j++)
                p.coeffs[j] = (j % 2) ? -7777.0f : 4242.0f;
        }
        const sb_poly_t given = p;
        if (k == 'e') {
            float x = tokf(q.substr(1));
            add(out, fbits(sb_poly_eval(&p, x)) + "," + dbits(sb_poly_eval_double(&p, (double)x)));
        } else if (k == 'g') {
            add(out, (long long)sb_poly_get_degree(&p));
        } else if (k == 'd') {
            sb_poly_deriv(&p);
            add(out, coeffs(p));
        } else if (k == 'k') {
            sb_poly_scale(&p, tokf(q.substr(1)));
            add(out, coeffs(p));
        } else if (k == 's') {
            sb_poly_stretch(&p, tokf(q.substr(1)));
            add(out, coeffs(p));
        } else if (k == 'a') {
            sb_poly_add_constant(&p, tokf(q.substr(1)));
            add(out, coeffs(p));
        } else if (k == 'S') {
            float rhs = tokf(q.substr(1));
            float roots[8];
            for (auto& r : roots)
                r = NAN;
            uint8_t num = 0xee;
            sb_error_t rc = sb_poly_solve(&p, rhs, roots, &num);
            std::string s = std::to_string((int)rc) + "," + std::to_string((int)num);
            if (rc == SB_SUCCESS)
                for (int j = 0; j < num && j < 8; j++)
                    s += "," + fbits(roots[j]);
            // the count-only and roots-only call styles must agree with the full call
            uint8_t num2 = 0xee;
            sb_error_t rc2 = sb_poly_solve(&p, rhs, nullptr, &num2);
            float roots3[8];
            for (auto& r : roots3)
                r = NAN;
            sb_error_t rc3 = sb_poly_solve(&p, rhs, roots3, nullptr);
            bool ok = rc2 == rc && rc3 == rc && (rc != SB_SUCCESS || num2 == num);
            if (rc == SB_SUCCESS)
                for (int j = 0; j < num && j < 8; j++)
                    ok = ok && f2b(roots3[j]) == f2b(roots[j]);
            bool untouched = memcmp(&p, &given, sizeof(p)) == 0;
            add(out, s + "," + (ok ? "=" : "!") + (untouched ? "=" : "!"));
        } else if (k == 'T') {
            float v = tokf(q.substr(1));
            float r = NAN;
            sb_bool_t b = sb_poly_touches(&p, v, &r);
            sb_bool_t b2 = sb_poly_touches(&p, v, nullptr);
            add(out, std::to_string((int)(b ? 1 : 0)) + "," + fbits(b ? r : 0.0f) + "," + ((!!b) == (!!b2) ? "=" : "!"));
        } else if (k == 'X') {
            sb_interval_t iv = { NAN, NAN };
            sb_error_t rc = sb_poly_get_extrema(&p, &iv);
            sb_error_t rc2 = sb_poly_get_extrema(&p, nullptr);
            add(out, std::to_string((int)rc) + "," + fbits(iv.min) + "," + fbits(iv.max) + "," + (rc2 == SB_SUCCESS ? "=" : "!"));
        } else if (k == '4') {
            // 4-D wrappers: components x=p, y=p', z=2p, yaw=977p+400
            float x = tokf(q.substr(1));
            sb_poly_t py = base, pz = base, pw = base;
            sb_poly_deriv(&py);
            sb_poly_scale(&pz, 2.0f);
            // the yaw component is a polynomial like the others (values far beyond one turn included): nothing is reduced
            sb_poly_scale(&pw, 977.0f);
            sb_poly_add_constant(&pw, 400.0f);
            sb_poly_4d_t P;
            P.x = base, P.y = py, P.z = pz, P.yaw = pw;
            bool ok = true;
            sb_vector3_with_yaw_t v = sb_poly_4d_eval(&P, x);
            ok = ok && f2b(v.x) == f2b(sb_poly_eval(&base, x)) && f2b(v.y) == f2b(sb_poly_eval(&py, x))
                && f2b(v.z) == f2b(sb_poly_eval(&pz, x)) && f2b(v.yaw) == f2b(sb_poly_eval(&pw, x));
            sb_poly_4d_t Q = P;
            sb_poly_4d_deriv(&Q);
            sb_poly_t a = base, b = py, c = pz, d = pw;
            sb_poly_deriv(&a), sb_poly_deriv(&b), sb_poly_deriv(&c), sb_poly_deriv(&d);
            ok = ok && same4(Q, a, b, c, d);
            Q = P;
            sb_poly_4d_scale(&Q, x);
            a = base, b = py, c = pz, d = pw;
            sb_poly_scale(&a, x), sb_poly_scale(&b, x), sb_poly_scale(&c, x), sb_poly_scale(&d, x);
            ok = ok && same4(Q, a, b, c, d);
            sb_vector3_with_yaw_t cv = { x, x + 1, x + 2, x + 3 };
            sb_poly_4d_make_constant(&Q, cv);
            sb_poly_make_constant(&a, cv.x), sb_poly_make_constant(&b, cv.y), sb_poly_make_constant(&c, cv.z), sb_poly_make_constant(&d, cv.yaw);
            ok = ok && same4(Q, a, b, c, d);
            sb_poly_4d_make_zero(&Q);
            sb_poly_make_zero(&a);
            ok = ok && same4(Q, a, a, a, a);
            add(out, ok ? "=" : "!");
        }
    }
}
