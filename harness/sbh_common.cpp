#include "sbh_common.hpp"
#include <cerrno>
#include <fcntl.h>
#include <sys/mman.h>

std::string g_current_id;
unsigned g_watchdog_s = 5;

void on_alarm(int)
{
    // async-signal-safe output of "<id> TIMEOUT\n"
    const char* id = g_current_id.c_str();
    (void)!write(1, id, strlen(id));
    (void)!write(1, " TIMEOUT\n", 9);
    _exit(3);
}

Toks split(const char* line)
{
    Toks t;
    const char* p = line;
    while (*p) {
        while (*p == ' ' || *p == '\t' || *p == '\n' || *p == '\r')
            p++;
        if (!*p)
            break;
        const char* q = p;
        while (*q && *q != ' ' && *q != '\t' && *q != '\n' && *q != '\r')
            q++;
        t.emplace_back(p, q - p);
        p = q;
    }
    return t;
}

static int hv(char c)
{
    if (c >= '0' && c <= '9')
        return c - '0';
    if (c >= 'a' && c <= 'f')
        return c - 'a' + 10;
    if (c >= 'A' && c <= 'F')
        return c - 'A' + 10;
    return 0;
}

std::vector<uint8_t> unhex(const std::string& s)
{
    std::vector<uint8_t> v;
    if (s == "-")
        return v;
    v.reserve(s.size() / 2);
    for (size_t i = 0; i + 1 < s.size(); i += 2)
        v.push_back((uint8_t)(hv(s[i]) * 16 + hv(s[i + 1])));
    return v;
}

std::string hex(const uint8_t* p, size_t n)
{
    static const char* d = "0123456789abcdef";
    if (n == 0)
        return "-";
    std::string s;
    s.reserve(2 * n);
    for (size_t i = 0; i < n; i++) {
        s += d[p[i] >> 4];
        s += d[p[i] & 15];
    }
    return s;
}

uint32_t f2b(float f)
{
    uint32_t b;
    memcpy(&b, &f, 4);
    return b;
}
float b2f(uint32_t b)
{
    float f;
    memcpy(&f, &b, 4);
    return f;
}
std::string fbits(float f) { return std::to_string(f2b(f)); }
float tokf(const std::string& s) { return b2f((uint32_t)strtoul(s.c_str(), nullptr, 10)); }

ExactBuf::ExactBuf(const std::vector<uint8_t>& v)
    : ExactBuf(v.data(), v.size())
{
}
ExactBuf::ExactBuf(const uint8_t* q, size_t len)
{
    n = len;
    p = (uint8_t*)malloc(len ? len : 1);
    if (len)
        memcpy(p, q, len);
    else
        p[0] = 0xEE;
}
ExactBuf::~ExactBuf() { free(p); }

int make_fd(const std::vector<uint8_t>& v)
{
    int fd = memfd_create("sbh", 0);
    if (fd < 0) {
        perror("memfd_create");
        exit(2);
    }
    size_t off = 0;
    while (off < v.size()) {
        ssize_t w = write(fd, v.data() + off, v.size() - off);
        if (w <= 0) {
            perror("write");
            exit(2);
        }
        off += (size_t)w;
    }
    lseek(fd, 0, SEEK_SET);
    return fd;
}

static std::map<std::string, OpFn>& table()
{
    static std::map<std::string, OpFn> t;
    return t;
}
OpRegistrar::OpRegistrar(const char* name, OpFn fn) { table()[name] = fn; }
bool dispatch(const Toks& t, std::string& out)
{
    auto it = table().find(t[1]);
    if (it == table().end())
        return false;
    // errno holds whatever an earlier, unrelated call of the process left there: a library call must not read it without
    // having made a failing system call itself
    errno = ENOENT;
    it->second(t, out);
    return true;
}
