// C17 : allocation scenarios with k-th allocation failure
#include "sbh_common.hpp"
extern "C" {
#include <skybrush/buffer.h>
#include <skybrush/lights.h>
#include <skybrush/poly.h>
#include <skybrush/rth_plan.h>
#include <skybrush/trajectory.h>
#include <skybrush/yaw_control.h>
}

extern volatile bool g_track;
extern long g_fail_at, g_failed, g_alien_free, g_alien_realloc, g_alloc_count;
void ledger_adopt(void* p);
long ledger_live();
void ledger_reset();

struct Track {
    Track() { g_track = true; }
    ~Track() { g_track = false; }
};

static unsigned long tokul(const std::string& s) { return strtoul(s.c_str(), nullptr, 10); }

// alloc <k> ops...   each op answers rc:live:allocs_so_far
SB_OP(alloc)
{
    ledger_reset();
    g_fail_at = (long)tokul(t[2]);
    sb_buffer_t buf;
    bool has_buf = false;
    sb_trajectory_t traj;
    bool has_traj = false;
    sb_trajectory_builder_t bld;
    bool has_bld = false;
    sb_light_program_t prog;
    bool has_prog = false;
    sb_light_player_t player;
    bool has_player = false;
    sb_yaw_control_t yaw;
    bool has_yaw = false;
    sb_rth_plan_t plan;
    bool has_plan = false;
    std::vector<ExactBuf*> views; // caller memory for views; freed at the very end
    std::vector<int> fds;
    memset(&buf, SBH_FILL, sizeof(buf));
    memset(&traj, SBH_FILL, sizeof(traj));
    memset(&bld, SBH_FILL, sizeof(bld));
    memset(&prog, SBH_FILL, sizeof(prog));
    memset(&player, SBH_FILL, sizeof(player));
    memset(&yaw, SBH_FILL, sizeof(yaw));
    memset(&plan, SBH_FILL, sizeof(plan));

    auto answer = [&](int rc) {
        add(out, std::to_string(rc) + ":" + std::to_string(ledger_live()) + ":" + std::to_string(g_alloc_count));
    };

    for (size_t i = 3; i < t.size(); i++) {
        const std::string& op = t[i];
        char k = op[0], s = op.size() > 1 ? op[1] : ' ';
        std::string a = op.size() > 2 ? op.substr(2) : "";
        int rc = 0;
        if (k == 'B') {
            if (s == 'i') {
                if (has_buf) { answer(-2); continue; }
                Track tr;
                rc = sb_buffer_init(&buf, tokul(a));
                has_buf = rc == 0;
            } else if (s == 'o') {
                // adopt a caller-allocated block (the buffer owns it from now on); size 0 is refused and adopts nothing
                if (has_buf) { answer(-2); continue; }
                size_t n = tokul(a);
                uint8_t* blk = (uint8_t*)malloc(n ? n : 1);
                memset(blk, 0, n ? n : 1);
                {
                    Track tr;
                    rc = sb_buffer_init_from_bytes(&buf, blk, n);
                }
                if (rc == 0) {
                    ledger_adopt(blk);
                    has_buf = true;
                } else {
                    free(blk);
                }
            } else if (s == 'v') {
                // a view over caller memory: the library must never grow, shrink or free it
                if (has_buf) { answer(-2); continue; }
                ExactBuf* view = new ExactBuf(std::vector<uint8_t>(tokul(a), 0));
                views.push_back(view);
                Track tr;
                sb_buffer_init_view(&buf, view->p, view->n);
                rc = 0;
                has_buf = true;
            } else if (!has_buf) {
                rc = -1;
            } else if (s == 'a') {
                std::vector<uint8_t> v(tokul(a) ? tokul(a) : 1, 0x5a);
                Track tr;
                rc = sb_buffer_append_bytes(&buf, v.data(), tokul(a));
            } else if (s == 'z') {
                Track tr;
                rc = sb_buffer_extend_with_zeros(&buf, tokul(a));
            } else if (s == 'r') {
                Track tr;
                rc = sb_buffer_resize(&buf, tokul(a));
            } else if (s == 'p') {
                Track tr;
                rc = sb_buffer_prune(&buf);
            } else if (s == 'c') {
                Track tr;
                rc = sb_buffer_clear(&buf);
            } else if (s == 'd') {
                Track tr;
                sb_buffer_destroy(&buf);
                has_buf = false;
            }
        } else if (k == 'T' || k == 'L' || k == 'Y' || k == 'R') {
            bool& has = k == 'T' ? has_traj : k == 'L' ? has_prog : k == 'Y' ? has_yaw : has_plan;
            if (s == 'f' || s == 'm' || s == 'o' || s == 'e') {
                if (has) { answer(-2); continue; }
                std::vector<uint8_t> v = unhex(a.empty() ? "-" : a);
                int fd = -1;
                ExactBuf* view = nullptr;
                uint8_t* owned = nullptr;
                if (s == 'f') {
                    fd = make_fd(v);
                    fds.push_back(fd);
                } else if (s == 'm') {
                    view = new ExactBuf(v);
                    views.push_back(view);
                } else if (s == 'o') {
                    owned = (uint8_t*)malloc(v.size() ? v.size() : 1);
                    if (!v.empty())
                        memcpy(owned, v.data(), v.size());
                    ledger_adopt(owned); // ownership is handed to the library
                }
                {
                    Track tr;
                    if (k == 'T')
                        rc = s == 'f' ? sb_trajectory_init_from_binary_file(&traj, fd) : s == 'm' ? sb_trajectory_init_from_binary_file_in_memory(&traj, view->p, view->n)
                            : s == 'o' ? sb_trajectory_init_from_bytes(&traj, owned, v.size()) : sb_trajectory_init_empty(&traj);
                    else if (k == 'L')
                        rc = s == 'f' ? sb_light_program_init_from_binary_file(&prog, fd) : s == 'm' ? sb_light_program_init_from_binary_file_in_memory(&prog, view->p, view->n)
                            : sb_light_program_init_empty(&prog);
                    else if (k == 'Y')
                        rc = s == 'f' ? sb_yaw_control_init_from_binary_file(&yaw, fd) : s == 'm' ? sb_yaw_control_init_from_binary_file_in_memory(&yaw, view->p, view->n)
                            : sb_yaw_control_init_empty(&yaw);
                    else
                        rc = s == 'f' ? sb_rth_plan_init_from_binary_file(&plan, fd) : s == 'm' ? sb_rth_plan_init_from_binary_file_in_memory(&plan, view->p, view->n)
                            : sb_rth_plan_init_empty(&plan);
                }
                if (rc != 0 && s == 'o') {
                    // a failed init did not take ownership: the caller still owns the block
                    Track tr;
                    free(owned);
                }
                has = rc == 0;
            } else if (!has) {
                rc = -1;
            } else if (s == 'c') {
                Track tr;
                if (k == 'T')
                    rc = sb_trajectory_clear(&traj);
                else if (k == 'L')
                    sb_light_program_clear(&prog);
            } else if (s == 'q') {
                Track tr;
                if (k == 'T') {
                    sb_vector3_with_yaw_t r;
                    rc = sb_trajectory_get_end_position(&traj, &r);
                    sb_bounding_box_t box;
                    sb_trajectory_get_axis_aligned_bounding_box(&traj, &box);
                    (void)sb_trajectory_propose_takeoff_time_sec(&traj, 1.0f, 1.0f, 1.0f);
                } else if (k == 'R') {
                    sb_rth_plan_entry_t e;
                    rc = sb_rth_plan_evaluate_at(&plan, 5.0f, &e);
                }
            } else if (s == 'd') {
                Track tr;
                if (k == 'T')
                    sb_trajectory_destroy(&traj);
                else if (k == 'L')
                    sb_light_program_destroy(&prog);
                else if (k == 'Y')
                    sb_yaw_control_destroy(&yaw);
                else
                    sb_rth_plan_destroy(&plan);
                has = false;
            }
        } else if (k == 'P') {
            // light player (C++ allocations are not visible to the C ledger)
            if (s == 'i') {
                if (!has_prog || has_player) { answer(-1); continue; }
                Track tr;
                rc = sb_light_player_init(&player, &prog);
                has_player = rc == 0;
                if (has_player)
                    (void)sb_light_player_get_color_at(&player, 100);
            } else if (s == 'd' && has_player) {
                Track tr;
                sb_light_player_destroy(&player);
                has_player = false;
            } else
                rc = -1;
        } else if (k == 'U') {
            if (s == 'i') {
                if (has_bld) { answer(-2); continue; }
                Track tr;
                rc = sb_trajectory_builder_init(&bld, (uint8_t)tokul(a), 0);
                has_bld = rc == 0;
            } else if (!has_bld) {
                rc = -1;
            } else if (s == 'a') {
                sb_vector3_with_yaw_t p = { (float)(bld.last_position.x + 10), 5, (float)(bld.last_position.z + 1), 0 };
                Track tr;
                rc = sb_trajectory_builder_append_line(&bld, p, (uint32_t)tokul(a));
            } else if (s == 'h') {
                Track tr;
                rc = sb_trajectory_builder_hold_position_for(&bld, (uint32_t)tokul(a));
            } else if (s == 'f') {
                if (has_traj) { answer(-2); continue; }
                Track tr;
                rc = sb_trajectory_init_from_builder(&traj, &bld);
                has_traj = rc == 0;
            } else if (s == 'd') {
                Track tr;
                sb_trajectory_builder_destroy(&bld);
                has_bld = false;
            }
        } else if (k == 'C') {
            // convert an RTH entry: C<action>,<time>,<dur>,<pre>,<post>,<neck>,<neckdur>  into the trajectory slot
            if (has_traj) { answer(-2); continue; }
            std::vector<float> f;
            size_t p0 = 1;
            while (p0 <= op.size()) {
                size_t p1 = op.find(',', p0);
                if (p1 == std::string::npos)
                    p1 = op.size();
                f.push_back((float)atof(op.substr(p0, p1 - p0).c_str()));
                p0 = p1 + 1;
            }
            while (f.size() < 7)
                f.push_back(0);
            sb_rth_plan_entry_t e;
            memset(&e, SBH_FILL, sizeof(e));
            e.action = (sb_rth_action_t)(int)f[0];
            e.time_sec = f[1];
            e.duration_sec = f[2];
            e.pre_delay_sec = f[3];
            e.post_delay_sec = f[4];
            e.pre_neck_mm = f[5];
            e.pre_neck_duration_sec = f[6];
            e.target.x = 5000;
            e.target.y = -3000;
            e.target_altitude = 20000;
            sb_vector3_with_yaw_t start = { 1000, 2000, 10000, 0 };
            Track tr;
            rc = sb_trajectory_init_from_rth_plan_entry(&traj, &e, start);
            has_traj = rc == 0;
        } else if (k == 'S') {
            // poly solve with library-allocated roots
            sb_poly_t poly;
            float cs[8] = { 1, -3, 0.5f, 2, 1.5f, -0.25f, 3, -1 }; // more than 4: the 'unimplemented' path must free too
            sb_poly_make(&poly, cs, (uint8_t)tokul(a.empty() ? std::string(1, s) : std::string(1, s) + a));
            uint8_t n = 0;
            Track tr;
            rc = sb_poly_solve(&poly, 0.25f, nullptr, &n);
        }
        answer(rc);
    }
    add(out, "E" + std::to_string(ledger_live()) + ":" + std::to_string(g_alien_free) + ":" + std::to_string(g_alien_realloc) + ":" + std::to_string(g_failed));
    // clean up whatever the scenario left behind (not part of the verdict)
    g_fail_at = 0;
    if (has_player)
        sb_light_player_destroy(&player);
    if (has_buf)
        sb_buffer_destroy(&buf);
    if (has_traj)
        sb_trajectory_destroy(&traj);
    if (has_bld)
        sb_trajectory_builder_destroy(&bld);
    if (has_prog)
        sb_light_program_destroy(&prog);
    if (has_yaw)
        sb_yaw_control_destroy(&yaw);
    if (has_plan)
        sb_rth_plan_destroy(&plan);
    for (auto v : views)
        delete v;
    for (int fd : fds)
        close(fd);
}
