"""C05 — Checksummed files reject every detectable corruption."""
from vlib.skyb import ap_crc32, make_file, hx, rand_bytes

from vlib.skyb import _TAB, _TOP

PID = "C05"
LEAN_MODULE = "Sb.Properties.C05Period"
THEOREMS = [
    "Sb.C05.crc_field_position", "Sb.C05.chunk_covers_header", "Sb.C05.update_expr_shape", "Sb.C05.poly_is_reflected",
    "Sb.C05.table_correct", "Sb.C05.update_eq_bitserial", "Sb.C05.update_split", "Sb.C05.update_splits",
    "Sb.C05.chunked_eq_whole", "Sb.C05.accept_rule", "Sb.C05.le32_injective", "Sb.C05.detect_in_field",
    "Sb.C05.crc_of_corrupted",
            "Sb.C05.detect_window_after_field", "Sb.C05.detect_byte_after_field", "Sb.C05.detect_two_bits_after_field", "Sb.C05.detect_field_bit_and_data_bit", "Sb.C05.generator_order",
            "Sb.C05.fileCrc_two_bits", "Sb.C05.detect_two_bits_up_to_period", "Sb.C05.detect_two_bits_gap", "Sb.C05.two_bits_one_period_apart_undetected",
            "Sb.C05.corruption_undetected_iff", "Sb.C05.corruption_undetected_iff_bytes", "Sb.C05.le32_xor", "Sb.C05.data_corruption_undetected_iff", "Sb.C05.detect_two_distinct_data_bits", "Sb.C05.crc_bitPat", "Sb.C05.fileCrc_one_bit", "Sb.C05.detect_field_bit_and_data_bit_up_to_period", "Sb.C05.field_bit_and_data_bit_one_period_apart_undetected",
            "Sb.Proofs.crc_one_bit_ne_basis_period", "Sb.Proofs.crc_one_bit_eq_basis_at_period", "Sb.Proofs.fieldDistance_lt",
            "Sb.Proofs.crc_two_bits_ne_period", "Sb.Proofs.crc_two_bits_at_period", "Sb.Proofs.bitDistance_lt", "Sb.Proofs.period_full",
            "Sb.Proofs.crc_window4", "Sb.Proofs.crc_window_changes", "Sb.Proofs.no_small_period", "Sb.Proofs.sqTab_step", "Sb.Proofs.app_matOf"]
RULE = ("crcupd: all 256 single bytes from crc 0 (= all table entries) and from seeded crcs, seeded strings with every split point "
        "(short) / seeded split points (long, lengths around multiples of 256); facc: valid checksummed files of lengths "
        "{10,11,160,255,256,257,511,512,513,seeded<=3000} through both routes; fcorr: for each such file every single-bit flip at offset>=6 "
        "(thorough: all files; quick: the short ones + a seeded sample), seeded double-bit flips, every 1..4-byte window not straddling "
        "the end of the field with patterns {00,ff,^ff,+1,seeded}; expected verdict ECORRUPTED on both routes; compensated alterations (data pattern + its checksum folded into the stored word: accepted; one more bit of the word: corrupted).  Distinct = distinct case line.")
ASSUMPTIONS = ["regular-file semantics of read/lseek for the descriptor route (memfd)"]


def valid_files(rng, tier):
    lens = [10, 11, 160, 255, 256, 257, 511, 512, 513]
    lens += [rng.randint(12, 3000) for _ in range(6 if tier == "thorough" else 2)]
    files = []
    for n in lens:
        payload = rand_bytes(rng, n - 10)
        f = bytearray(b"skyb\x02\x01\0\0\0\0" + payload)
        f[6:10] = ap_crc32(f).to_bytes(4, "little")
        files.append(bytes(f))
    # also a structurally sensible one
    files.append(make_file([(3, b"hello"), (1, bytes([10, 0, 0, 0, 0, 0, 0, 0, 0])), (3, rand_bytes(rng, 300))], 2, True))
    # the checksum bit together with other (unassigned) feature bits: the checksum must still be verified
    for feat in (0x03, 0x81, 0xff, 0x11):
        payload = rand_bytes(rng, rng.choice([30, 150, 246]))
        f = bytearray(b"skyb\x02" + bytes([feat]) + b"\0\0\0\0" + payload)
        f[6:10] = ap_crc32(f).to_bytes(4, "little")
        files.append(bytes(f))
    return files


def show_file(rng):
    """a checksummed show with all four object kinds (for the eight loaders)"""
    from vlib.gen_traj import traj_block, yaw_block
    from vlib.gen_lights import program
    from vlib.gen_rth import plan
    tb, _ = traj_block(rng, nseg=3, scale=10)
    yb, _ = yaw_block(rng, n=3)
    rp, _, _ = plan(rng, well_formed=True)
    return make_file([(1, tb), (2, program(rng)), (5, yb), (4, rp), (3, rand_bytes(rng, 40))], 2, True)


def big_file(rng, n):
    """a valid checksummed file of exactly n bytes (several blocks: a block body is at most 65535 bytes)"""
    f = bytearray(b"skyb\x02\x01\0\0\0\0")
    while len(f) < n:
        room = n - len(f)
        if room < 3:
            f += bytes(room)          # trailing zero bytes: a type-0 record header, ends the block list
            break
        ln = min(room - 3, 40000)
        f += bytes([3, ln & 255, ln >> 8]) + rand_bytes(rng, ln)
    f[6:10] = ap_crc32(f).to_bytes(4, "little")
    return bytes(f)


def generate(rng, tier):
    out = []
    thorough = tier == "thorough"
    for i in range(256):
        out.append((f"crcupd 0 {i:02x}", True))
        out.append((f"crcupd {rng.getrandbits(32)} {i:02x}", True))
    for _ in range(300 if thorough else 60):
        n = rng.choice([0, 1, 2, 3, 7, 20, 33])
        b = rand_bytes(rng, n)
        c = rng.choice([0, 0xffffffff, rng.getrandbits(32)])
        for cut in range(n + 1):
            out.append((f"crcupd {c} {hx(b)} {cut}", True))
    for _ in range(200 if thorough else 40):
        n = rng.choice([255, 256, 257, 511, 512, 513, 1024, rng.randint(0, 5000)])
        b = rand_bytes(rng, n)
        cuts = sorted(rng.randint(0, n) for _ in range(rng.randint(0, 6)))
        out.append((f"crcupd {rng.getrandbits(32)} {hx(b)} " + " ".join(map(str, cuts)), True))
    # the eight loaders (four object kinds x two routes) must report the corruption too, not only the parser
    sf = show_file(rng)
    for kind in "tlyr":
        out.append((f"load2 {kind} {hx(sf)}", True))
        for _ in range(12 if thorough else 5):
            g = bytearray(sf)
            k = rng.randrange(6, len(g))
            g[k] ^= 1 << rng.randrange(8)
            out.append((f"load2 {kind} {hx(g)}", True))
    # files whose checksum contains a 00 byte (at file offset 6, 7 or 8): every alteration of the other checksum bytes and of
    # the data must still be reported (a comparison that stops at a zero byte would not notice)
    made = 0
    tries = 0
    while made < (12 if thorough else 4) and tries < 200000:
        tries += 1
        body = rand_bytes(rng, rng.choice([23, 40, 250]))
        tf = bytearray(b"skyb\x02\x01\x00\x00\x00\x00" + bytes([3, len(body) & 255, len(body) >> 8]) + body)
        c = ap_crc32(tf)
        zpos = [i for i in range(3) if (c >> (8 * i)) & 255 == 0]
        if not zpos:
            continue
        made += 1
        tf[6:10] = c.to_bytes(4, "little")
        out.append((f"facc m {hx(tf)}", True))
        out.append((f"facc f {hx(tf)}", True))
        for k in range(6, 10):
            for bit in (0, 3, 7):
                g = bytearray(tf)
                g[k] ^= 1 << bit
                out.append((f"fcorr {rng.choice('mf')} {hx(g)}", True))
        for k in (10, 13, len(tf) - 1):
            g = bytearray(tf)
            g[k] ^= 0x40
            out.append((f"fcorr {rng.choice('mf')} {hx(g)}", True))
    # tiny checksummed files (header only, or a header and a few bytes): a loader that looks at the size before the
    # checksum must still report the corruption
    for n in range(10, 19):
        tf = bytearray(b"skyb\x02\x01\x00\x00\x00\x00") + rand_bytes(rng, n - 10)
        tf[6:10] = ap_crc32(tf).to_bytes(4, "little")
        for kind in "tlyr":
            out.append((f"load2 {kind} {hx(tf)}", True))
            for k in ([6, 9] + ([n - 1] if n > 10 else [])):
                g = bytearray(tf)
                g[k] ^= 1 << rng.randrange(8)
                out.append((f"load2 {kind} {hx(g)}", True))
    # files beyond 64 KiB and 128 KiB: every chunk after the first must be hashed as it is (bytes 6..9 of the file only
    # are the checksum field), whatever the width of the counters involved
    for n in ([65545, 65546, 65600, 70000, 131100] if thorough else [65546, 70000, 131100]):
        bf = big_file(rng, n)
        out.append((f"facc m {hx(bf)}", True))
        out.append((f"facc f {hx(bf)}", True))
        offs = [o for o in (65541, 65542, 65543, 65544, 65545, 65546, 131077, 131078, 131080, 131081, 131082, 256 + 6, 512 + 7, 65536 + 256 + 8) if o < n]
        offs += [rng.randrange(10, n) for _ in range(3)]
        for o in offs:
            g = bytearray(bf)
            g[o] ^= rng.choice([1, 0x80, 0xff])
            out.append((f"fcorr {rng.choice('mf')} {hx(g)}", True))
        if n > 65546:
            g = bytearray(bf)
            g[65542:65546] = bytes(x ^ 0x5a for x in g[65542:65546])
            out.append((f"fcorr m {hx(g)}", True))
            out.append((f"fcorr f {hx(g)}", True))
    files = valid_files(rng, tier)
    for f in files:
        for route in "mf":
            out.append((f"facc {route} {hx(f)}", True))
        # history: the same caller buffer / descriptor is loaded, altered in place (same length) and loaded again;
        # the verdict must follow the bytes (valid, corrupted, valid, corrupted ...)
        if len(f) <= 600:
            for route in "mf":
                seq = [f]
                for _ in range(3):
                    g = bytearray(f)
                    k = rng.randrange(10 if len(f) > 10 else 6, len(f))
                    g[k] ^= 1 << rng.randrange(8)
                    seq += [bytes(g), f]
                out.append((f"faccseq {route} " + " ".join(hx(x) for x in seq), True))
        # the error-pattern criterion (corruption_undetected_iff) on the real code: a data alteration `erest` whose
        # checksum is folded into the stored word is NOT a corruption, and with one further bit of the word it is
        if 11 <= len(f) <= 600:
            for _ in range(3):
                n = len(f) - 10
                if rng.random() < 0.5:
                    erest = bytearray(n)
                    for _k in range(rng.randint(1, 3)):
                        erest[rng.randrange(n)] ^= 1 << rng.randrange(8)
                else:
                    erest = bytearray(rand_bytes(rng, n))
                delta = ap_crc32(bytes(10) + bytes(erest))
                g = bytearray(f)
                for j in range(n):
                    g[10 + j] ^= erest[j]
                word = int.from_bytes(f[6:10], "little") ^ delta
                g[6:10] = word.to_bytes(4, "little")
                route = rng.choice("mf")
                out.append((f"facc {route} {hx(g)}", True))
                g[6:10] = (word ^ (1 << rng.randrange(32))).to_bytes(4, "little")
                out.append((f"fcorr {route} {hx(g)}", True))
        nbits = (len(f) - 6) * 8
        if thorough or len(f) <= 257:
            flips = range(nbits)
        else:
            flips = sorted(set(rng.randrange(nbits) for _ in range(400)) | set(range(40)) | {nbits - 1})
        for k in flips:
            g = bytearray(f)
            g[6 + k // 8] ^= 1 << (k % 8)
            out.append((f"fcorr {'mf'[k % 2] if not thorough else 'm'} {hx(g)}", True))
            if thorough:
                out.append((f"fcorr f {hx(g)}", True))
        for _ in range(600 if thorough else 80):
            a, b2 = rng.randrange(nbits), rng.randrange(nbits)
            if a == b2:
                continue
            g = bytearray(f)
            g[6 + a // 8] ^= 1 << (a % 8)
            g[6 + b2 // 8] ^= 1 << (b2 % 8)
            out.append((f"fcorr {rng.choice('mf')} {hx(g)}", True))
        offs = range(6, len(f)) if (thorough or len(f) <= 160) else sorted(
            set(rng.randrange(6, len(f)) for _ in range(60)) | {6, 7, 9, 10, len(f) - 1, 254, 255, 256} & set(range(6, len(f))))
        for off in offs:
            for w in (1, 2, 3, 4):
                if off + w > len(f):
                    continue
                if off < 10 < off + w:
                    continue  # straddles the end of the checksum field
                for pat in ("00", "ff", "inv", "inc", "rnd"):
                    g = bytearray(f)
                    for i in range(off, off + w):
                        g[i] = {"00": 0, "ff": 255, "inv": g[i] ^ 255, "inc": (g[i] + 1) & 255, "rnd": rng.getrandbits(8)}[pat]
                    if bytes(g) == f:
                        continue
                    out.append((f"fcorr {rng.choice('mf')} {hx(g)}", True))
    # checksums that look like sentinels: files whose AP-CRC32 is ffffffff, 00000000 or 00000001 (the last four bytes of a trailing
    # comment block are chosen accordingly) are valid like any other - they load, and every alteration is corrupted data; and for an
    # ordinary file the one four-byte overwrite that drives the computed checksum to ffffffff (or 0) is an alteration like any other
    from vlib.skyb import forge_tail
    for target in (0xFFFFFFFF, 0, 1, 0x80000000):
        for n in ((40, 250, 300) if not thorough else (20, 40, 160, 250, 256, 300, 520)):
            body = bytes(rng.getrandbits(8) for _ in range(n))
            pre = bytearray(b"skyb\x02\x01\0\0\0\0" + bytes([3, (n + 4) & 255, (n + 4) >> 8]) + body)
            f = bytearray(pre + forge_tail(bytes(pre), target))
            assert ap_crc32(bytes(f)) == target
            f[6:10] = target.to_bytes(4, "little")
            f = bytes(f)
            out.append((f"facc m {hx(f)}", True))
            out.append((f"facc f {hx(f)}", True))
            for kind in "tlyr":
                out.append((f"load2 {kind} {hx(f)}", True))
            for k in list(range(32)) + [rng.randrange(32, (len(f) - 6) * 8) for _ in range(24)]:
                g = bytearray(f)
                g[6 + k // 8] ^= 1 << (k % 8)
                out.append((f"fcorr {'mf'[k % 2]} {hx(g)}", True))
    for f in valid_files(rng, tier)[:(6 if not thorough else 20)]:
        if len(f) < 20:
            continue
        for target in (0xFFFFFFFF, 0):
            for off in sorted({10, 13, len(f) // 2, len(f) - 9, len(f) - 4} | ({254, 255, 256} if len(f) > 262 else set())):
                if off < 10 or off + 4 > len(f):
                    continue
                # overwrite f[off:off+4] so that the checksum of the altered file (field zeroed) is `target`: solve for the window by
                # forging the tail of the prefix for the register value that the unchanged suffix maps to the target
                z = bytearray(f)
                z[6:10] = b"\0\0\0\0"
                suffix = bytes(z[off + 4:])
                # run the register backwards through the suffix
                u = target
                for b in reversed(suffix):
                    idx = _TOP[u >> 24]
                    u = ((((u ^ _TAB[idx]) << 8) & 0xFFFFFFFF) | idx) ^ b
                w = forge_tail(bytes(z[:off]), u)
                g = bytearray(f)
                g[off:off + 4] = w
                z2 = bytearray(g)
                z2[6:10] = b"\0\0\0\0"
                assert ap_crc32(bytes(z2)) == target, (hex(ap_crc32(bytes(z2))), hex(target))
                if bytes(g) != f:
                    out.append((f"fcorr m {hx(g)}", True))
                    out.append((f"fcorr f {hx(g)}", True))
    return out
