"""C10 — Yaw setpoints evaluate to the piecewise-linear curve they encode."""
from vlib.gen_traj import yaw_block, probe_times, i16, u16
from vlib.skyb import hx

PID = "C10"
LEAN_MODULE = "Sb.Properties.C10Block"
THEOREMS = [
    "Sb.C10.constants", "Sb.C10.header_fields_exact", "Sb.C10.numDeltas_eq", "Sb.C10.yaw_eq_spec", "Sb.C10.yawAt_eq",
    "Sb.C10.yawRateAt_eq", "Sb.C10.before_zero", "Sb.C10.yaw_at_zero", "Sb.C10.after_end_hold",
    "Sb.Proofs.buildSetpoint_spec", "Sb.Proofs.yaw_seek_spec",
    "Sb.C10.yaw_eq_spec_of_block", "Sb.C10.decodeDeltas_bounds",
]
RULE = ("yaw-control blocks: any flag byte, offsets {±32767,-32768,0,seeded}, 0..200 setpoints with durations {1,1000,65535,seeded>=1} and "
        "changes {±32767,-32768,0,seeded}, long runs of +32767 changes (accumulated yaw far beyond ±3276.7°), trailing 1..3 stray bytes; "
        "fresh player per query at {-inf,<0,0,boundaries±1ulp,interior,end,beyond,+inf} for yaw and yaw rate, total duration, header "
        "fields. Non-trivial: at least one setpoint.")


def generate(rng, tier):
    out = []
    n = 900 if tier == "thorough" else 150
    for i in range(n):
        blk, durs = yaw_block(rng)
        if i % 7 == 0:
            # accumulate: many large changes of the same sign
            k = rng.randint(5, 120)
            blk = bytes([rng.getrandbits(8)]) + i16(rng.choice([32767, -32768])) + b"".join(
                u16(rng.choice([1, 1000, 65535])) + i16(rng.choice([32767, 32000])) for _ in range(k))
            durs = [int.from_bytes(blk[3 + 4 * j:5 + 4 * j], "little") for j in range(k)]
        if i % 5 == 0:
            blk = blk + bytes(rng.getrandbits(8) for _ in range(rng.randint(1, 3)))
        ts = probe_times(rng, durs)
        for t in ts:
            out.append((f"yawq {hx(blk)} y{t}", len(durs) > 0))
            out.append((f"yawq {hx(blk)} r{t}", len(durs) > 0))
        out.append((f"yawq {hx(blk)} d", len(durs) > 0))
        # the duration is the sum of ALL setpoints wherever the player is parked
        if durs:
            t1, t2 = rng.choice(ts), rng.choice(ts)
            out.append((f"yawq {hx(blk)} y{t1} d r{t2} d d", True))
    for blk in [b"", b"\x01", b"\x01\x02", b"\x00\x00\x00", b"\xff\xff\x7f", b"\x01\x00\x80\x01"]:
        out.append((f"yawq {hx(blk)} y0 r0 d", False))
    return out
