"""C07 — Velocity and acceleration are the time derivatives of the position."""
from vlib.gen_traj import traj_block, probe_times
from vlib.skyb import hx

PID = "C07"
LEAN_MODULE = "Sb.Properties.C07"
THEOREMS = [
    "Sb.C07.velocity_is_derivative", "Sb.C07.acceleration_is_second_derivative", "Sb.C07.position_in_time",
    "Sb.C07.beyond_end_zero", "Sb.C07.before_zero_eq_at_zero", "Sb.C07.neg_inf_eq_at_zero", "Sb.C07.relT_form",
    "Sb.C07.dOf_eq", "Sb.C07.ddOf_scaled",
    "Sb.Proofs.toPoly_deriv", "Sb.Proofs.toPoly_scale", "Sb.Proofs.eval_toPoly", "Sb.Proofs.derivative_inTime",
    "Sb.C08.runQuery_spec",
]
RULE = ("(histories also contain the player's total-duration query between derivative queries of one instant) " "trajectory blocks as in C01 with positive durations; velocity and acceleration queries at {-inf,<0,0,boundaries±1ulp, "
        "interior, end, beyond, +inf}, interleaved with position queries at the same and different times in several orders so that "
        "the lazily computed derivative polynomials are exercised (v then a, a then v, a first, repeated); compared with the exact "
        "rational derivative of the model within the float32 bound. Non-trivial: a segment of degree >= 1 on some axis.")


def generate(rng, tier):
    out = []
    n = 800 if tier == "thorough" else 120
    for i in range(n):
        blk, durs = traj_block(rng)
        ts = probe_times(rng, durs)
        nt = len(durs) > 0
        for t in ts:
            pat = i % 4
            if pat == 0:
                qs = f"v{t} a{t}"
            elif pat == 1:
                qs = f"a{t} v{t} p{t}"
            elif pat == 2:
                qs = f"p{t} v{t} v{t} a{t} a{t}"
            else:
                qs = f"a{t}"
            out.append((f"traj {'bo'[i % 2]} {hx(blk)} {qs}", nt))
        # one long interleaving through the whole object
        seq = []
        for t in ts:
            seq.append(rng.choice("pva") + str(t))
            seq.append(rng.choice("va") + str(rng.choice(ts)))
        out.append((f"traj b {hx(blk)} " + " ".join(seq), nt))
        # ... and with the player's own duration query (which walks the cursor to the end and back) between two derivative
        # queries of the same instant
        seq = []
        for t in ts[:6]:
            seq += [f"v{t}", "d", f"v{t}", f"a{t}", "d", f"a{t}", f"v{t}"]
        out.append((f"traj {'ob'[i % 2]} {hx(blk)} " + " ".join(seq), nt))
    # curved segments that come back to where they started (every axis ends on its start value while the inner control
    # points differ): velocity and acceleration are not zero inside, although start and end points coincide
    from vlib.gen_stats import build
    for _ in range(60 if tier == "thorough" else 12):
        scale = rng.choice([1, 10, 127])
        st = (rng.randint(-500, 500), rng.randint(-500, 500), rng.randint(0, 800), rng.choice([0, 900, 1800]))
        def loop(v, deg):
            inner = [v + rng.randint(-1000, 1000) for _ in range(deg - 1)]
            return inner + [v] if deg > 0 else []
        degs = [rng.choice([3, 3, 7, 0]) for _ in range(3)] + [rng.choice([0, 0, 3])]
        if all(d == 0 for d in degs):
            degs[0] = 3
        seg = (rng.choice([2000, 1000, 46341, 300]), loop(st[0], degs[0]), loop(st[1], degs[1]), loop(st[2], degs[2]), loop(st[3], degs[3]))
        after = (1500, [st[0] + 100], [], [], [])
        blk = build(scale, st, [seg, after], use_yaw=rng.random() < 0.5)
        ts = probe_times(rng, [seg[0], 1500], 3)
        out.append((f"traj b {hx(blk)} " + " ".join(f"v{t} a{t}" for t in ts), True))
        out.append((f"traj o {hx(blk)} " + " ".join(f"a{t} p{t} v{t}" for t in ts), True))
    for dx in range(4):
        for dy in range(4):
            blk, durs = traj_block(rng, nseg=2, degs=(dx, dy, (dx + dy) % 4, (dx * dy) % 4), scale=rng.choice([1, 10, 127]))
            ts = probe_times(rng, durs, 2)
            out.append((f"traj b {hx(blk)} " + " ".join(f"v{t} a{t}" for t in ts), True))
    return out
