"""C08 — Trajectory and yaw answers do not depend on earlier queries."""
import itertools
from vlib.gen_traj import u16, traj_block, yaw_block, probe_times, f2b, PINF, NINF
from vlib.skyb import hx

PID = "C08"
LEAN_MODULE = "Sb.Properties.C08Float"
THEOREMS = [
    "Sb.C08.runQuery_spec", "Sb.C08.runHistory_inv", "Sb.C08.trajectory_answers_history_free",
    "Sb.C08.trajectory_boundary_adjoining",
    "Sb.Proofs.cseek_lands", "Sb.Proofs.landing_history_free", "Sb.Proofs.landing_adjoining", "Sb.Proofs.cseek_congr",
    "Sb.Proofs.buildSegment_total", "Sb.Proofs.seekLoop_eq_cseek", "Sb.Proofs.traj_tiling",
    "Sb.Proofs.getDpoly_coh", "Sb.Proofs.getDdpoly_coh",
            "Sb.C08Yaw.yaw_answers_history_free", "Sb.C08Yaw.yaw_answers_history_free_of_block", "Sb.C08Yaw.runYHistory_inv",
            "Sb.Proofs.yaw_seekLoop_eq_cseek", "Sb.Proofs.yaw_tiling", "Sb.Proofs.noYawOverflow_of_block", "Sb.Proofs.noWrapYaw_of_block",
            "Sb.C08.monoSec_secF32", "Sb.C08.trajectory_answers_history_free_float", "Sb.C08.trajectory_answers_history_free_of_block",
            "Sb.C08.yaw_answers_history_free_float", "Sb.Proofs.roundF32_mono", "Sb.Proofs.floorLog2_spec", "Sb.Proofs.noWrap_of_block"]
RULE = ("trajectory and yaw blocks with positive segment durations; for each object every ordering of up to 4 (quick) / 5 (thorough) "
        "probe times drawn from {-inf, 0, boundaries, boundary±1ulp, interior, end, beyond, +inf} with query kinds rotating over "
        "position/velocity/acceleration/duration (yaw: yaw/rate/duration), plus seeded random walks of 200 (quick) / 10000 (thorough) "
        "queries; each answer is compared bit-for-bit with a fresh player's by the harness and against the model (segment index exactly). "
        "Non-trivial: at least two segments and at least two queries.")
ASSUMPTIONS = ["instants that are exactly a segment boundary accept either adjoining segment (property text)"]


def kinds_traj(i):
    return "pvapdv"[i % 6]


def generate(rng, tier):
    out = []
    thorough = tier == "thorough"
    nobj = 60 if thorough else 14
    k = 5 if thorough else 4
    for i in range(nobj):
        blk, durs = traj_block(rng, nseg=rng.choice([2, 3, 4, 6]), scale=rng.choice([1, 10, 127]))
        ts = probe_times(rng, durs, 1)
        pool = [NINF, 0] + ts[5:5 + 3 * (len(durs) + 1)] + [ts[-1], ts[-4]]
        picks = rng.sample(pool, min(k, len(pool)))
        for perm in itertools.permutations(picks):
            qs = []
            for j, t in enumerate(perm):
                kd = kinds_traj(i + j)
                qs.append("d" if kd == "d" else f"{kd}{t}")
                qs.append(f"p{t}")
            out.append((f"traj {'bo'[i % 2]} {hx(blk)} " + " ".join(qs), True))
        # random walk
        n = 10000 if thorough else 200
        qs = []
        for j in range(n):
            r = rng.random()
            if r < 0.03:
                qs.append("d")
            elif r < 0.08:
                qs.append(rng.choice("nnw"))   # the public cursor API: step to the next segment / rewind
            else:
                qs.append(rng.choice("pva") + str(rng.choice(ts) if rng.random() < 0.7 else f2b(rng.random() * sum(durs) / 900.0)))
        out.append((f"traj b {hx(blk)} " + " ".join(qs), True))
    # long runs of the shortest possible segments (3 bytes: a hover) between ordinary ones: one query has to step over dozens
    # of segments, from a fresh cursor, from a cursor in the middle and after a back-jump
    for i in range(12 if thorough else 3):
        a, da = traj_block(rng, nseg=rng.choice([1, 2]), scale=rng.choice([1, 10]), degs=(1, 0, 1, 0))
        nh = rng.choice([20, 35, 60])
        hov = b"".join(bytes([0]) + u16(rng.choice([1000, 60000, 250])) for _ in range(nh))
        dh = [int.from_bytes(hov[3 * j + 1:3 * j + 3], "little") for j in range(nh)]
        b, db = traj_block(rng, nseg=1, scale=1, degs=(0, 0, 1, 0))
        blk = a + hov + b[9:]
        durs = da + dh + db
        total = sum(durs) / 1000.0
        far = [f2b(total * f) for f in (0.97, 0.6, 0.999)] + [f2b(total + 5.0)]
        mid = f2b(total * 0.3)
        for qs in ([f"p{far[0]}", f"v{far[0]}", "d"], [f"p{mid}", f"p{far[2]}", f"p{far[1]}", f"a{far[3]}"],
                   [f"p{far[3]}", f"p{mid}", f"v{far[0]}"], [f"a{far[1]}", f"p{f2b(1.0)}", f"p{far[2]}", "d", f"p{far[0]}"]):
            out.append((f"traj {'bo'[i % 2]} {hx(blk)} " + " ".join(qs), True))
    # the hold state behind the last segment stores the 16-bit truncation of (2^32 - 1 - total) as its 'duration': when that
    # number happens to equal the duration of the first segment (total + first = 65535 mod 65536), nothing may be carried
    # over from the hold state into the first segment after a rewind
    from vlib.gen_stats import build
    for i in range(8 if thorough else 3):
        d0 = rng.choice([5000, 1, 20000, 7])
        mids = [d0] * rng.choice([0, 1, 2]) + [rng.choice([10000, 3000]) for _ in range(rng.choice([1, 3]))]
        last = (65535 - d0 - d0 - sum(mids)) % 65536
        if last == 0:
            last = 65536 - 1
            mids.append(1)
            last = (65535 - d0 - d0 - sum(mids)) % 65536
        durs = [d0] + mids + [last]
        assert (sum(durs) + d0) % 65536 == 65535
        x, z = 0, 0
        segs = []
        for d in durs:
            x2, z2 = x + rng.randint(500, 3000), z + rng.randint(-500, 2000)
            segs.append((d, [x + rng.randint(0, 900), x2 - 100, x2], [], [z2], []))
            x, z = x2, z2
        blk = build(rng.choice([1, 10]), (0, 0, 0, 0), segs)
        tot = sum(durs) / 1000.0
        inside0 = f2b(d0 / 2000.0)
        inside1 = f2b((d0 + mids[0] / 2.0) / 1000.0)
        for qs in ([f"p{f2b(tot + 5)}", f"v{inside0}", f"a{inside0}", f"v{inside1}"], ["d", f"a{inside0}", f"v{inside0}", f"a{inside1}"],
                   [f"p{PINF}", f"v{inside0}", f"p{inside0}", f"a{inside1}"], [f"v{inside0}", f"a{inside0}", f"p{f2b(tot + 1)}", f"v{inside1}", f"v{inside0}"]):
            out.append((f"traj {'bo'[i % 2]} {hx(blk)} " + " ".join(qs), True))
    for i in range(nobj):
        blk, durs = yaw_block(rng, n=rng.choice([2, 3, 5, 8]))
        ts = probe_times(rng, durs, 1)
        pool = [NINF, 0] + ts[5:5 + 3 * (len(durs) + 1)] + [ts[-1], ts[-4]]
        picks = rng.sample(pool, min(k, len(pool)))
        for perm in itertools.permutations(picks):
            qs = []
            for j, t in enumerate(perm):
                kd = "yrd"[(i + j) % 3]
                qs.append("d" if kd == "d" else f"{kd}{t}")
                qs.append(f"y{t}")
            out.append((f"yawq {hx(blk)} " + " ".join(qs), True))
        n = 10000 if thorough else 200
        qs = []
        for j in range(n):
            r = rng.random()
            if r < 0.03:
                qs.append("d")
            else:
                qs.append(rng.choice("yr") + str(rng.choice(ts) if rng.random() < 0.7 else f2b(rng.random() * sum(durs) / 900.0)))
        out.append((f"yawq {hx(blk)} " + " ".join(qs), True))
    return out
