"""C09 — Light-player answers do not depend on earlier seeks."""
import itertools
from vlib.gen_lights import program, timestamps, varint, LOOP_BEGIN, LOOP_END, SET_GRAY, SET_BLACK, SET_WHITE, SET_PYRO, NOP, END, SET_COLOR, RESET_CLOCK
from vlib.skyb import hx

PID = "C09"
LEAN_MODULE = "Sb.Properties.C09History"
THEOREMS = [
    "Sb.C09.rewind_resets", "Sb.C09.fresh_is_rewound", "Sb.C09.seek_backwards_rewinds", "Sb.C09.seek_current",
    "Sb.C02.ended_held", "Sb.C02.loopBegin_depth", "Sb.C02.loopEnd_depth",
    "Sb.C09.answers_history_free", "Sb.C09.answers_up_to_latitude", "Sb.C09.answers_latitude_two_histories", "Sb.C09.fresh_shows_first_command",
    "Sb.Proofs.Light.fresh_least", "Sb.Proofs.Light.at_between", "Sb.Proofs.Light.fresh_seek_exact", "Sb.C09.reachable_inv", "Sb.C09.reachable_inv_upTo", "Sb.C09.budget_irrelevant", "Sb.C09.next_event_sound",
    "Sb.C09.sample_short", "Sb.C09.sample_not_instant_400",
    "Sb.Proofs.Light.step_sim", "Sb.Proofs.Light.execCommand_sim", "Sb.Proofs.Light.execCommand_post", "Sb.Proofs.Light.wake_step",
    "Sb.Proofs.Light.reset_step", "Sb.Proofs.Light.interior_step", "Sb.Proofs.Light.dead_step", "Sb.Proofs.Light.chain_good",
    "Sb.Proofs.Light.seek_inv", "Sb.Proofs.Light.inv_unique",
]
RULE = ("programs as in C02; one player per case driven through a history of seeks: every ordering of 3 (quick) / 4 (thorough) probe "
        "timestamps with each timestamp queried twice in a row (repeats at event starts exercise the zero-duration latitude), mixed "
        "query kinds, plus random walks of 60 (quick) / 2000 (thorough) seeks with back-jumps; every answer is compared with a fresh "
        "player's by the harness and both with the model; a difference is accepted only at an instant where the fresh player still has "
        "zero-duration commands pending (fresh next == t). Nested loops of short commands make single seeks cross 10^4..10^5 executed "
        "commands, compared with the same instants reached in hops. Non-trivial: history of at least 3 seeks with a back-jump.")
ASSUMPTIONS = ["latitude at command start instants as stated in the property"]


def generate(rng, tier):
    out = []
    thorough = tier == "thorough"
    n = 400 if thorough else 70
    k = 4 if thorough else 3
    for i in range(n):
        p = program(rng)
        ts = timestamps(rng, p, 10)
        if len(ts) < k:
            continue
        picks = rng.sample(ts, k)
        for perm in itertools.permutations(picks):
            qs = []
            for j, t in enumerate(perm):
                kd = "csy"[(i + j) % 3]
                qs.append(f"{kd}{t}")
                qs.append(f"c{t}")
                if j % 2 == 0:
                    qs.append(f"y{t}")
            out.append((f"lightq {hx(p)} " + " ".join(qs), True))
        walk = []
        for _ in range(2000 if thorough else 60):
            t = rng.choice(ts) if rng.random() < 0.8 else rng.randint(0, max(ts) + 1000)
            walk.append(rng.choice("csy") + str(min(t, (1 << 24) - 1)))
        out.append((f"lightq {hx(p)} " + " ".join(walk), True))
    # one seek across tens of thousands of commands (nested loops of short and zero-duration commands) against the same
    # instants reached in hops and after back-jumps: "skipping far ahead never changes later answers"
    for i in range(5 if thorough else 2):
        inner = rng.choice([40, 50, 64])
        outer = rng.choice([120, 200, 255])
        body = bytes([SET_GRAY, rng.randint(1, 255), 1, NOP, SET_BLACK, 1])
        p = (bytes([LOOP_BEGIN, outer, LOOP_BEGIN, inner]) + body + bytes([LOOP_END, LOOP_END, SET_PYRO, 0x81, SET_WHITE])
             + varint(5000) + bytes([END]))
        total = outer * inner * 40
        far = total + 7
        hops = [f"c{total * j // 6 + 3}" for j in range(1, 6)]
        qs = [f"c{far}", f"y{far}", "c13", f"y{far + 100}", f"s{total // 2}"] + hops + [f"c{far}", f"y{far}", "c13", f"c{total - 1}", f"c{far + 50000}"]
        out.append((f"lightq {hx(p)} " + " ".join(qs), True))
    # a playhead resting exactly on a RESET_CLOCK instant (the commands up to and including the clock reset executed, the
    # timed command behind it not yet) and then sent backwards: everything before must be answered as by a fresh player
    # (seed C09-25: a rewind skipped on "nothing played yet", which a clock reset makes look true)
    for i in range(12 if thorough else 5):
        d1, d2, d3 = rng.randint(3, 40), rng.randint(3, 40), rng.randint(3, 40)      # 20 ms units
        pre = [bytes([NOP]), bytes([SET_PYRO, 0x80 | rng.randrange(7)]), bytes([SET_PYRO, rng.randrange(7)])]
        kz = rng.randint(0, 2)
        p = (bytes([SET_WHITE]) + varint(d1) + bytes([SET_PYRO, 0x81, SET_COLOR, 255, 0, 0]) + varint(d2)
             + b"".join(rng.choice(pre) for _ in range(kz)) + bytes([RESET_CLOCK, SET_PYRO, 0x80, SET_COLOR, 0, 255, 0]) + varint(d3)
             + bytes([SET_COLOR, 0, 0, 255]) + varint(50) + bytes([END]))
        r = 20 * (d1 + d2)
        back = [r // 2 + 1, 20 * d1 // 2 + 3, 20 * d1 + 7, r - 1, 1]
        qs = [f"c{r}"] * (kz + 2 + rng.randint(0, 2))
        for t in back:
            qs += [f"c{t}", f"y{t}"]
        qs += [f"c{r}", f"s{r}", f"y{back[0]}", f"c{r + 20 * d3 + 5}", f"c{back[1]}", f"c{r + 1}", f"y{back[2]}"]
        out.append((f"lightq {hx(p)} " + " ".join(qs), True))
    return out
