"""C09 — Light-player answers do not depend on earlier seeks."""
import itertools
from vlib.gen_lights import program, timestamps
from vlib.skyb import hx

PID = "C09"
LEAN_MODULE = "Sb.Properties.C09"
THEOREMS = [
    "Sb.C09.rewind_resets", "Sb.C09.fresh_is_rewound", "Sb.C09.seek_backwards_rewinds", "Sb.C09.seek_current",
    "Sb.C02.ended_held", "Sb.C02.loopBegin_depth", "Sb.C02.loopEnd_depth",
]
RULE = ("programs as in C02; one player per case driven through a history of seeks: every ordering of 3 (quick) / 4 (thorough) probe "
        "timestamps with each timestamp queried twice in a row (repeats at event starts exercise the zero-duration latitude), mixed "
        "query kinds, plus random walks of 60 (quick) / 2000 (thorough) seeks with back-jumps; every answer is compared with a fresh "
        "player's by the harness and both with the model; a difference is accepted only at an instant where the fresh player still has "
        "zero-duration commands pending (fresh next == t). Non-trivial: history of at least 3 seeks with a back-jump.")
ASSUMPTIONS = ["latitude at command start instants as stated in the property"]


def generate(rng, tier):
    out = []
    thorough = tier == "thorough"
    n = 400 if thorough else 70
    k = 4 if thorough else 3
    for i in range(n):
        p = program(rng)
        ts = timestamps(rng, p, 10)
        if len(ts) < k:
            continue
        picks = rng.sample(ts, k)
        for perm in itertools.permutations(picks):
            qs = []
            for j, t in enumerate(perm):
                kd = "csy"[(i + j) % 3]
                qs.append(f"{kd}{t}")
                qs.append(f"c{t}")
                if j % 2 == 0:
                    qs.append(f"y{t}")
            out.append((f"lightq {hx(p)} " + " ".join(qs), True))
        walk = []
        for _ in range(2000 if thorough else 60):
            t = rng.choice(ts) if rng.random() < 0.8 else rng.randint(0, max(ts) + 1000)
            walk.append(rng.choice("csy") + str(min(t, (1 << 24) - 1)))
        out.append((f"lightq {hx(p)} " + " ".join(walk), True))
    return out
