"""C13 — Proposed takeoff time matches the first crossing of the takeoff altitude."""
import math
from vlib.gen_stats import build, skyb, z_points, axis_points, fb, well_conditioned_cubic
from vlib.gen_traj import f2b, b2f, PINF, NINF
from vlib.skyb import hx

PID = "C13"
LEAN_MODULE = "Sb.Properties.C13"
THEOREMS = ["Sb.C13.firstTouch_none", "Sb.C13.firstTouch_some", "Sb.C13.first_crossing", "Sb.C13.never_reached", "Sb.C13.earliest_in_segment", "Sb.C13.takeoff_infinite_iff", "Sb.C13.takeoff_value", "Sb.C13.params_screening", "Sb.C13.touchesLinear_spec",
            "Sb.Corr.Cert.pos_sound", "Sb.Corr.Cert.root_sound", "Sb.Corr.Cert.segs_cover", "Sb.Corr.Cert.segs_roots", "Sb.Corr.Cert.partition_complete", "Sb.Corr.Cert.partition_sound", "Sb.Corr.Cert.reachesCert_true", "Sb.Corr.Cert.reachesCert_false", "Sb.Corr.Cert.hasRootCert_true", "Sb.Corr.Cert.hasRootCert_false", "Sb.Corr.Cert.rootsCert_complete", "Sb.Corr.Cert.rootsCert_sound", "Sb.Corr.Cert.sqrt2Segs_ok"]
RULE = ("trajectory files with 1..7 segments whose altitude encodings are constant, linear or well-conditioned cubic (5% rule), arbitrary "
        "x/y encodings incl. degree 7, scales {1, 10, 127}; climbs, hovers, descents before the climb, plateaus; takeoff ascents h chosen "
        "from: 0, the altitude gain at every segment boundary exactly (crossing exactly at a boundary / plateau exactly at the target), "
        "fractions inside every segment's gain, ease-out cubic climbs (almost flat arrival, target reached long before it), a hair above an initial hover (1..3 float steps, up to 1e-3 mm), the maximum gain exactly and just beyond (never reached), h = 0 on a first cubic segment that returns exactly to the initial altitude; speeds {500.5, 1000, 2000}, "
        "accelerations {1, 1000, 4000, +inf}; invalid parameters {negative, zero, +-inf, NaN} in each position. The proposal function "
        "and the one-pass statistics interface are both called, through both loading routes. Non-trivial: at least one segment.")
ASSUMPTIONS = ["'E' is judged through the altitude it yields and through 'not robustly reached earlier', decided exactly (certified root oracle) on the exact Bezier "
               "altitude polynomials; tolerance: float rounding for constant/linear altitude, residTol=1/500 of the coefficient magnitude for cubic altitude",
               "the climb time T is the implementation's own sb_get_travel_time_for_distance (verified under C20); E - T is checked bit-exactly"]

NANB = 0x7FC00000


def generate(rng, tier):
    out = []
    n = 900 if tier == "thorough" else 160
    for i in range(n):
        scale = rng.choice([1, 10, 10, 127])
        z0 = rng.choice([0, 0, rng.randint(-200, 200), 100])
        start = (rng.randint(-100, 100), rng.randint(-100, 100), z0, 0)
        nseg = rng.choice([1, 2, 3, 4, 7])
        x, y, z = start[0], start[1], z0
        segs, gains = [], []
        for k in range(nseg):
            xs, x = axis_points(rng, x, rng.choice([0, 1, 2, 3] if rng.random() < 0.2 else [0, 1, 2]))
            ys, y = axis_points(rng, y, rng.choice([0, 1, 2]))
            r = rng.random()
            if r < 0.2:
                zs = []  # hover
            elif r < 0.5:
                zs, z = z_points(rng, z, 1, z - 50 if rng.random() < 0.3 else z, z + rng.choice([10, 250, 1000]))
            else:
                zs, z = z_points(rng, z, 2, z - 100 if rng.random() < 0.3 else z, z + rng.choice([10, 250, 1000, 2500]))
            segs.append((rng.choice([1, 500, 1000, 3000, 10000, 65535]), xs, ys, zs, []))
            gains.append((z - z0) * scale)
        blk = build(scale, start, segs)
        top = max(gains + [0])
        hs = {0.0, float(top), float(top) + 1.0, float(top) * 2 + 5}
        for g in gains:
            if g >= 0:
                hs.add(float(g))
        prev = 0
        for g in gains:
            if g > prev:
                hs.add(b2f(f2b(prev + (g - prev) * rng.choice([0.5, 0.25, 0.9, 0.01]))))
                prev = g
        hs.add(b2f(f2b(rng.uniform(0, max(top, 1)))))
        qs = []
        for h in sorted(hs):
            v = rng.choice([500.5, 1000.0, 2000.0])
            a = rng.choice([1.0, 1000.0, 4000.0, math.inf])
            # all three regimes of the climb profile: h below one speed ramp, between one and two, above two
            if h > 0 and rng.random() < 0.4:
                a = b2f(f2b(v * v / (h * rng.choice([0.3, 0.6, 0.75, 0.9, 0.99, 1.0, 1.01, 1.5, 2.0, 2.01, 3.0]))))
            qs.append(f"K{fb(h)},{fb(v)},{fb(a)}")
        out.append((f"stats {hx(skyb(blk, rng))} " + " ".join(qs), True))
    # cubic climbs that start level or dipping and then rise steeply through the target (derivative changes sign
    # inside the segment; exercises the "derivative never positive" shortcut of the cubic touch test), preceded by a
    # hover and followed by a descent back through the target (a later, wrong crossing exists)
    for i in range(200 if tier == "thorough" else 40):
        scale = rng.choice([1, 10])
        z0 = rng.randint(50, 900)
        for _ in range(100):
            dip = rng.choice([0, 0, rng.randint(1, 200)])
            p1 = z0 - dip
            p2 = z0 + rng.randint(300, 1500)
            p3 = p2 + rng.randint(200, 1500)
            if well_conditioned_cubic(z0, [p1, p2, p3]):
                break
        segs = [(rng.choice([1000, 2000]), [], [], [], []),
                (rng.choice([1000, 4000, 10000]), [], [], [p1, p2, p3], []),
                (2000, [], [], [], []),
                (5000, [], [], [z0 - 20], [])]
        blk = build(scale, (0, 0, z0, 0), segs)
        qs = []
        for frac in (0.05, 0.3, 0.5, 0.8, 0.97):
            h = b2f(f2b((p3 - z0) * scale * frac))
            qs.append(f"K{fb(h)},{fb(1000.0)},{fb(rng.choice([1000.0, math.inf]))}")
        out.append((f"stats {hx(skyb(blk, rng))} " + " ".join(qs), True))
    # one curved segment per branch pattern of the cubic touch test (signs of a, b, c, p'(1), the position of the
    # vertex and of the derivative's minimum), targets spread over the altitude range of the segment
    from vlib.gen_stats import stratified_cubics
    for (z0, p) in stratified_cubics(rng, 6000 if tier == "thorough" else 1500, 2 if tier == "thorough" else 1):
        scale = rng.choice([1, 10])
        if min([z0] + p) * scale < -32000 or max([z0] + p) * scale > 32000 * scale:
            continue
        blk = build(scale, (0, 0, z0, 0), [(rng.choice([1000, 3000]), [], [], p, []), (2000, [], [], [z0], [])])
        # exact Bezier range by sampling (targets need not be exact extremes)
        vals = []
        for i in range(41):
            u = i / 40
            vals.append(((1 - u) ** 3 * z0 + 3 * (1 - u) ** 2 * u * p[0] + 3 * (1 - u) * u * u * p[1] + u ** 3 * p[2]))
        top = max(vals)
        qs = []
        for frac in (0.02, 0.25, 0.5, 0.75, 0.98, 1.05):
            h = (top - z0) * scale * frac
            if h >= 0:
                qs.append(f"K{fb(b2f(f2b(h)))},{fb(1000.0)},{fb(1000.0)}")
        # a takeoff altitude just below an interior hump of the segment: the curve crosses it twice, a moderate
        # distance apart - E is the first crossing, not the top of the hump between the two
        c1, c2, c3 = 3 * (p[0] - z0), 3 * (z0 - 2 * p[0] + p[1]), p[2] - 3 * p[1] + 3 * p[0] - z0
        disc = 4 * c2 * c2 - 12 * c3 * c1
        if c3 != 0 and disc > 0:
            for sgn in (1, -1):
                u = (-2 * c2 + sgn * math.sqrt(disc)) / (6 * c3)
                curv = 2 * c2 + 6 * c3 * u
                if 0.25 < u < 0.75 and curv < 0:
                    pv = z0 + c1 * u + c2 * u * u + c3 * u ** 3
                    w = rng.choice([0.12, 0.15, 0.2])
                    h = (pv - 0.5 * abs(curv) * w * w - z0) * scale
                    if h > 0:
                        qs.append(f"K{fb(b2f(f2b(h)))},{fb(1000.0)},{fb(1000.0)}")
        if qs:
            out.append((f"stats {hx(skyb(blk, rng))} " + " ".join(qs), True))
    # a first cubic segment that comes back exactly to the initial altitude at its end (hop, dip, wiggle): with h = 0 the
    # altitude is reached at E = 0, not at the end of the segment and not at an interior crossing; with a small h > 0
    # the first crossing is inside the segment
    made = 0
    while made < (400 if tier == "thorough" else 70):
        z0 = rng.choice([0, 0, 1000, -500])
        a = z0 + rng.randint(-5000, 5000)
        b = z0 + rng.randint(-5000, 5000)
        lead, quad, lin = 3 * (a - b), 3 * (z0 - 2 * a + b), 3 * (a - z0)
        if abs(lead) < 0.05 * max(abs(quad), abs(lin)) or abs(lead) < 30:
            continue
        scale = rng.choice([1, 10])
        if min(z0, a, b) < -32000 or max(z0, a, b) > 32000:
            continue
        made += 1
        blk = build(scale, (0, 0, z0, 0), [(rng.choice([1000, 4000]), [], [], [a, b, z0], []), (2000, [], [], [z0 + 3000], [])])
        qs = [f"K{fb(0.0)},{fb(1000.0)},{fb(rng.choice([1000.0, math.inf]))}"]
        top = max(((1 - u) ** 3 * z0 + 3 * (1 - u) ** 2 * u * a + 3 * (1 - u) * u * u * b + u ** 3 * z0) for u in [i / 40 for i in range(41)])
        if top > z0:
            for frac in (0.001, 0.5):
                qs.append(f"K{fb(b2f(f2b((top - z0) * scale * frac)))},{fb(1000.0)},{fb(1000.0)}")
        out.append((f"stats {hx(skyb(blk, rng))} " + " ".join(qs), True))
    # ease-out climbs: the segment decelerates into an almost flat arrival at the top (control points z0, ~top, ~top, top) and the
    # takeoff altitude is reached long before the flat part - one real solution, with the two cube roots of the closed formula of
    # opposite sign and similar size
    for _ in range(240 if tier == "thorough" else 50):
        scale = rng.choice([1, 10])
        z0 = rng.choice([0, 0, 300, -200])
        climb = rng.choice([1000, 2500, 3000, 3000])
        top = z0 + climb
        e1 = int(climb * rng.choice([0.02, 0.05, 0.07, 0.1, 0.12, 0.15]))
        e2 = int(climb * rng.choice([0.0, 0.005, 0.01, 0.02]))
        p = [top - e1, top - e2, top]
        if not well_conditioned_cubic(z0, p):
            continue
        pre = [(2000, [], [], [], [])] if rng.random() < 0.3 else []
        blk = build(scale, (0, 0, z0, 0), pre + [(rng.choice([3000, 6000, 10000]), [], [], p, []), (2000, [], [], [top], [])])
        qs = []
        for frac in (0.05, 0.1, 0.17, 0.3, 0.5, 0.7, 0.9):
            qs.append(f"K{fb(b2f(f2b(climb * scale * frac)))},{fb(1000.0)},{fb(rng.choice([1000.0, math.inf]))}")
        out.append((f"stats {hx(skyb(blk, rng))} " + " ".join(qs), True))
    # level flight stored as a *linear* altitude segment whose end equals its start (two stored coefficients, one of them
    # zero): at the start of the show with h = 0 (E = 0), and as a plateau exactly at the takeoff altitude after a climb
    for _ in range(40 if tier == "thorough" else 8):
        scale = rng.choice([1, 10])
        z0 = rng.choice([0, 500, -200])
        top = z0 + rng.choice([1000, 2500, 3000])
        kind = rng.choice(["lin", "cub"])
        climb = [top] if kind == "lin" else [z0, top - rng.randint(0, 400), top]
        segs = [(5000, [800], [], [z0], []),                # level move, z stored as a line z0 -> z0
                (4000, [], [], climb, []),                   # climb to the plateau
                (5000, [-300], [], [top], []),               # plateau stored as a line top -> top
                (3000, [], [], [top + 500], [])]
        blk = build(scale, (0, 0, z0, 0), segs)
        h = float((top - z0) * scale)
        qs = [f"K{fb(0.0)},{fb(1000.0)},{fb(math.inf)}", f"K{fb(h)},{fb(1000.0)},{fb(1000.0)}", f"K{fb(h + 1.0)},{fb(1000.0)},{fb(1000.0)}",
              f"K{fb(h / 2)},{fb(500.5)},{fb(4000.0)}"]
        out.append((f"stats {hx(skyb(blk, rng))} " + " ".join(qs), True))
        # every altitude segment level and linear: h = 0 is reached at once, anything above never
        blk = build(scale, (0, 0, z0, 0), [(5000, [800], [], [z0], []), (2000, [], [300], [z0], [])])
        out.append((f"stats {hx(skyb(blk, rng))} K{fb(0.0)},{fb(1000.0)},{fb(1000.0)} K{fb(1.0)},{fb(1000.0)},{fb(1000.0)}", True))
    # takeoff altitudes a hair above a hover (one to a few float steps, up to 1e-3 mm): constant-altitude segments are
    # compared exactly, so the hover must not count as reaching the altitude; the crossing is in the climb behind it
    for i in range(60 if tier == "thorough" else 16):
        scale = rng.choice([1, 10])
        z0 = rng.choice([0, 100, 250, 819, 1000, 2500])
        nh = rng.choice([1, 2])
        segs = [(rng.choice([1000, 5000]), rng.choice([[], [50]]), [], [], []) for _ in range(nh)]
        segs.append((rng.choice([2000, 6000]), [], [], [z0 + rng.choice([100, 1500])], []))
        if rng.random() < 0.5:
            segs.append((3000, [], [], [z0], []))          # and down again
        blk = build(scale, (0, 0, z0, 0), segs)
        base = float(z0 * scale)
        import struct
        def up(x, k):
            b = f2b(x)
            return b2f(b + k)
        hs = [0.0]
        if base > 0:
            # h such that float(base + h) is k steps above base
            for k in (1, 2, 3):
                hs.append(b2f(f2b(up(base, k) - base)))
        hs += [0.0002, 0.0005, 0.0009, 0.002]
        qs = [f"K{fb(b2f(f2b(h)))},{fb(1000.0)},{fb(rng.choice([1000.0, math.inf]))}" for h in hs]
        out.append((f"stats {hx(skyb(blk, rng))} " + " ".join(qs), True))
    # invalid parameters on a plain climb
    blk = build(10, (0, 0, 0, 0), [(5000, [], [], [300], []), (5000, [100], [], [], [])])
    f = hx(skyb(blk))
    good = (f2b(1000.0), f2b(1000.0), f2b(4000.0))
    bad = [f2b(-1.0), f2b(-0.0), 0, NINF, PINF, NANB, f2b(-1e-30), f2b(1e-40)]
    qs = []
    for pos in range(3):
        for b in bad:
            p = list(good)
            p[pos] = b
            qs.append("K" + ",".join(str(v) for v in p))
    out.append((f"stats {f} " + " ".join(qs), True))
    # no segments
    out.append((f"stats {hx(skyb(build(1, (0, 0, 5, 0), [])))} K{fb(0.0)},{fb(1000.0)},{fb(4000.0)} K{fb(10.0)},{fb(1000.0)},{fb(4000.0)}", False))
    return out
