"""C06 — Loading from a descriptor and from memory are interchangeable."""
from vlib import corpus
from vlib.skyb import hx

PID = "C06"
LEAN_MODULE = "Sb.Properties.C06"
THEOREMS = [
    "Sb.C06.ex_eq_read_mem", "Sb.C06.ex_eq_read_fd", "Sb.C06.findLoop_valid", "Sb.C06.blockBytes_eq", "Sb.C06.findOf_routes",
    "Sb.C06.load_equiv", "Sb.C06.findOf_same_when_complete", "Sb.C04.find_first_correct", "Sb.C04.accept_iff",
]
ASSUMPTIONS = ["queries depend on the loaded block bytes only: by construction in the model, by the bit-for-bit battery comparison in the implementation"]
RULE = ("byte strings: the repository's fixture files and generated show files with every subset of the four block kinds (valid and "
        "damaged blocks, empty blocks, both versions, with/without checksum), every prefix of the small ones, single-byte edits with "
        "values {00,01,7f,80,ff,+1,-1} (checksum refreshed for most so that the edit reaches the block parser), multi-byte random and "
        "structural mutations, random strings; each loaded as trajectory, light program, yaw control and RTH plan through a descriptor "
        "(also with block bodies of 32768..65535 bytes) and from memory (a fresh exact-size buffer, then one reused working buffer that held other bytes of the same length); compared: success class, block bytes, the whole query battery bit-for-bit, the battery again after clear. "
        "Non-trivial: a file in which the block of the kind is present.")
HARNESS_ENV = None


def generate(rng, tier):
    out = []
    thorough = tier == "thorough"
    seen = set()

    def emit(f, nt=True):
        h = hx(f)
        if h in seen:
            return
        seen.add(h)
        for k in "tlyr":
            out.append((f"load2 {k} {h}", nt))

    fx = corpus.fixtures()
    for name, f in fx:
        emit(f)
        if len(f) < 3000 or thorough:
            for g in corpus.mutations(rng, f, 120 if thorough else 25):
                emit(g)
    for i in range(300 if thorough else 45):
        f = corpus.gen_show(rng)
        emit(f)
        for g in corpus.mutations(rng, f, 400 if thorough else 60):
            emit(g)
    for s in corpus.random_strings(rng, 400 if thorough else 60):
        emit(s, False)
    # the blocks to load lie beyond 64 KiB / 128 KiB in the file (two maximal comment blocks first)
    from vlib.skyb import make_file, rand_bytes
    from vlib.gen_traj import traj_block, yaw_block
    from vlib.gen_lights import program
    from vlib.gen_rth import plan
    for ver, cks in ((1, False), (2, True)):
        tb, _ = traj_block(rng, nseg=3, scale=10)
        yb, _ = yaw_block(rng, n=3)
        rp, _, _ = plan(rng, well_formed=True)
        big = make_file([(3, rand_bytes(rng, 65535)), (3, rand_bytes(rng, 65535)), (1, tb), (2, program(rng)), (5, yb), (4, rp)], ver, cks)
        emit(big)
        emit(big[:-2])
    # block bodies beyond 32 KiB (up to the largest a 16-bit length can declare): a reader that fetches in pieces must put them
    # together in order - each loaded as its own kind through both routes
    for n in (32768, 32769, 40000, 65535):
        for ver, cks in ((1, False), (2, True)) if n in (32769, 65535) else ((1, False),):
            tb, _ = traj_block(rng, nseg=3, scale=10)
            yb, _ = yaw_block(rng, n=3)
            rp, _, _ = plan(rng, well_formed=True)
            lp = b"".join(bytes([4, rng.getrandbits(8), rng.getrandbits(8), rng.getrandbits(8), 1]) for _ in range(n // 5 + 1))
            for typ, kind, head in ((1, "t", tb), (2, "l", lp), (5, "y", yb), (4, "r", rp)):
                body = (head + rand_bytes(rng, n))[:n]
                f = make_file([(typ, body), (3, b"tail")], ver, cks)
                out.append((f"load2 {kind} {hx(f)}", True))
    return out


def finding_signature(case, detail):
    return "zero-time-cycle" if "[zero-time-cycle]" in detail else None
