"""C20 — Supporting utilities honour their documented contracts."""
import itertools
from vlib.gen_traj import f2b, b2f, PINF, NINF, next_up, next_down
from vlib.skyb import hx, rand_bytes

PID = "C20"
LEAN_MODULE = "Sb.Properties.C20Scale"
THEOREMS = [
    "Sb.C20.init_inv", "Sb.C20.view_inv", "Sb.C20.growCap_ge", "Sb.C20.growCap_gt", "Sb.C20.realloc_spec",
    "Sb.C20.view_cannot_resize", "Sb.C20.view_cannot_grow", "Sb.C20.append_contents", "Sb.C20.resize_smaller", "Sb.C20.resize_contents", "Sb.C20.fill_size",
    "Sb.C20.rgbw_min_subtraction", "Sb.C20.interval_never_inverted", "Sb.C20.interval_collapses",
    "Sb.C20.code_cruise_expression", "Sb.C20.profile_continuous_at_boundary", "Sb.C20.profile_monotone",
            "Sb.C20.lerp_zero", "Sb.C20.lerp_one", "Sb.C20.lerp_between", "Sb.C20.lerpChanF_close", "Sb.C20.roundF32_error", "Sb.C20.rhe_error", "Sb.C20.rgbw_reference_le", "Sb.C20.refParams_div_nonneg",
            "Sb.C20.conv_step_good", "Sb.C20.conv_history_good", "Sb.C20.conv_history_contract", "Sb.C20.conv_temperature_fresh",
            "Sb.C20.scaleUpdate_spec", "Sb.C20.newScale_least", "Sb.C20.quotient_above", "Sb.C20.repr_gap", "Sb.C20.bump_table",
            "Sb.Proofs.roundF32_mono", "Sb.Proofs.roundF32_natCast"]
NAN = 0x7FC00000
RULE = ("travel time: grids of (distance, speed, acceleration) incl. the regime boundary distance = speed^2/acceleration and its "
        "float neighbours, 0, distances down to 1e-30 at small speeds/accelerations, negative, ±inf, NaN, infinite acceleration; monotonicity in distance on consecutive grid points; "
        "scale update: coordinates at k*32767, k*32767±1 and their float neighbours for k=1..128, fractional, ±inf, NaN, old scales "
        "{0,1,5,127}; seconds->ms: grid incl. 4294967 s, its float neighbours, fractional milliseconds, negative, ±inf, NaN; "
        "interval/box expansion by positive/negative/zero amounts; colour interpolation: per-channel rows over all 256 second values x 33 "
        "ratios for every first value (thorough: all 256) + seeded triples with ratios in and outside [0,1]; RGBW: all colours for "
        "min-subtraction and several reference colours by rows (thorough: all 256 rows = 2^24 colours), fixed value; buffer: all "
        "operation sequences up to length 3 (thorough 4) over sizes {0,1,2,3,8,9} for owned buffers of initial size {0,1,8} and views "
        "of length {0,1,5}. Non-trivial: a case at a regime boundary, a refused operation or a collapsing interval.")
ASSUMPTIONS = ["sqrtf is not modelled: the triangular regime is compared through the square of the returned time"]


def generate(rng, tier):
    out = []
    thorough = tier == "thorough"
    # ---- travel time
    speeds = [0.5, 1.0, 2.0, 8.0, 1000.0]
    accs = [0.1, 1.0, 4.0, 9.81, 1e4]
    prev = {}
    for v in speeds:
        for a in accs:
            bnd = f2b(b2f(f2b(v)) * b2f(f2b(v)) / b2f(f2b(a)))
            ds = sorted({0, f2b(1e-6), f2b(0.001), next_down(next_down(bnd)), next_down(bnd), bnd, next_up(bnd), next_up(next_up(bnd)),
                         f2b(b2f(bnd) / 2), f2b(b2f(bnd) * 2), f2b(2.5), f2b(100.0), f2b(1e6)} | {f2b(rng.uniform(0, 50)) for _ in range(6 if thorough else 2)})
            for d in ds:
                out.append((f"tt {d} {f2b(v)} {f2b(a)}", d in (bnd, next_up(bnd), next_down(bnd))))
            out.append((f"tt {f2b(2.5)} {f2b(v)} {PINF}", True))
    # very small positive distances: still the profile's time, not 0 (with small speed/acceleration it is far from 0)
    for d in (1.1920929e-7, 1.1920928e-7, 1e-7, 5e-8, 1e-8, 1e-10, 1e-14, 1e-20, 1e-30):
        for v, a in ((1.0, 1.0), (0.5, 0.1), (1e-3, 1e-6), (1e-12, 1e-15), (1e-9, None), (2.0, None), (1e-6, 1e-3), (1e-4, 1e-12)):
            out.append((f"tt {f2b(d)} {f2b(v)} {PINF if a is None else f2b(a)}", True))
    for _ in range(400 if thorough else 60):
        d = 10.0 ** rng.uniform(-30, -6)
        v = 10.0 ** rng.uniform(-12, 1)
        a = 10.0 ** rng.uniform(-15, 2)
        out.append((f"tt {f2b(d)} {f2b(v)} {f2b(a) if rng.random() < 0.85 else PINF}", True))
    for d, v, a in itertools.product([f2b(-1.0), 0, f2b(1.0), PINF, NINF, NAN], [f2b(-1.0), 0, f2b(2.0), PINF, NINF, NAN], [f2b(-4.0), 0, f2b(4.0), PINF, NINF, NAN]):
        out.append((f"tt {d} {v} {a}", True))
    for v in speeds:
        for a in accs + [float("inf")]:
            ab = PINF if a == float("inf") else f2b(a)
            bnd = 1.0 if a == float("inf") else v * v / a
            ds = sorted({0.0, bnd * 0.5, bnd * 0.999999, bnd, bnd * 1.000001, bnd * 2} | {rng.uniform(0, 3 * bnd + 1) for _ in range(40)})
            # dense float neighbourhood of the regime boundary
            b0 = f2b(bnd)
            nb = [b2f(x) for x in range(max(1, b0 - 12), b0 + 13)]
            ds = sorted(set(ds) | set(nb))
            out.append((f"ttmono {f2b(v)} {ab} " + " ".join(str(f2b(d)) for d in ds), True))
    # ---- scale update
    for k in list(range(1, 130)) if thorough else [1, 2, 3, 63, 64, 126, 127, 128]:
        for delta in (-1.0, -0.5, 0.0, 0.25, 1.0):
            m = k * 32767.0 + delta
            for mb in {f2b(m), next_up(f2b(m)), next_down(f2b(m))}:
                for old in (0, 1, 5, 127):
                    coords = [mb, f2b(-b2f(mb)), 0]
                    rng.shuffle(coords)
                    out.append((f"scale {old} {coords[0]} {coords[1]} {coords[2]}", True))
    for x in (PINF, NINF, NAN, f2b(1e12), f2b(-1e12), 0, f2b(0.4), f2b(32767.0), f2b(32767.5)):
        for old in (0, 1, 127):
            out.append((f"scale {old} {x} 0 0", True))
            out.append((f"scale {old} 0 0 {x}", True))
    for _ in range(3000 if thorough else 400):
        out.append((f"scale {rng.choice([0, 1, 2, 10, 127])} {f2b(rng.uniform(-5e6, 5e6))} {f2b(rng.uniform(-5e6, 5e6))} {f2b(rng.uniform(-5e6, 5e6))}", True))
    # ---- seconds -> ms
    vals = {0, f2b(-0.0), f2b(-1e-9), f2b(0.0005), f2b(0.001), f2b(0.0015), f2b(59.999), f2b(60.0), f2b(3600.0), f2b(4294967.0),
            f2b(4294967.25), f2b(4294967.5), f2b(4294968.0), f2b(4294966.5), f2b(4e6), f2b(1e10), PINF, NINF, NAN, f2b(-5.0)}
    for b in list(vals):
        if b < PINF:
            vals |= {next_up(b), next_down(b)}
    vals |= {f2b(rng.uniform(0, 5e6)) for _ in range(2000 if thorough else 300)}
    for b in sorted(vals):
        out.append((f"ms {b}", True))
    # ---- interval expansion
    for mn, mx in [(0.0, 1.0), (-5.0, 5.0), (2.0, 2.0), (1e6, 1e6 + 1), (-3.5, -1.25), (0.1, 0.7)]:
        for off in [0.0, 0.25, 1.0, -0.1, -0.5, -0.3, -1.0, -10.0, 1e7, -1e7] + [rng.uniform(-3, 3) for _ in range(20 if thorough else 4)]:
            out.append((f"ivl {f2b(mn)} {f2b(mx)} {f2b(off)}", off < 0))
    # ---- colour interpolation
    for f in (range(256) if thorough else [0, 1, 127, 128, 200, 255] + [rng.getrandbits(8) for _ in range(6)]):
        out.append((f"lerp_row {f}", True))
    for _ in range(6000 if thorough else 800):
        ratio = rng.choice([0.0, 1.0, 0.5, rng.random(), rng.random(), rng.uniform(-0.5, 1.5), 1e-8, 1 - 1e-7, 3.0, -2.0])
        out.append(("lerp " + " ".join(str(rng.getrandbits(8)) for _ in range(6)) + f" {f2b(ratio)}", 0 <= ratio <= 1))
    # a channel that is the same in both colours stays what it is, whatever the ratio (non-dyadic ratios: the two products of a
    # 'first*(1-r) + second*r' evaluation are rounded separately)
    for c in range(256):
        for ratio in ([0.1, 1.0 / 3, 0.3, 0.7, 0.9, rng.random()] if thorough else [0.1, 1.0 / 3, rng.choice([0.3, 0.7, 0.9, rng.random()])]):
            g1, g2 = rng.getrandbits(8), rng.getrandbits(8)
            out.append((f"lerp {c} {g1} {c} {c} {g2} {c} {f2b(ratio)}", True))
    # ---- RGBW
    refs = [(255, 255, 255), (255, 180, 107), (0, 0, 0), (1, 1, 1), (255, 0, 0), (10, 200, 30), (255, 147, 41)]
    rows = range(256) if thorough else [0, 1, 128, 255, rng.getrandbits(8)]
    for r in rows:
        out.append((f"rgbw_row s {r}", True))
    for ref in refs[: (7 if thorough else 3)]:
        for r in (rows if thorough else [0, 200, 255]):
            out.append((f"rgbw_row r {r} {ref[0]} {ref[1]} {ref[2]}", True))
    for _ in range(2000 if thorough else 300):
        c = [rng.getrandbits(8) for _ in range(3)]
        out.append((f"rgbw s {c[0]} {c[1]} {c[2]}", True))
        out.append((f"rgbw f {c[0]} {c[1]} {c[2]} {rng.getrandbits(8)}", True))
        ref = rng.choice(refs) if rng.random() < 0.5 else tuple(rng.getrandbits(8) for _ in range(3))
        out.append((f"rgbw r {c[0]} {c[1]} {c[2]} {ref[0]} {ref[1]} {ref[2]}", True))
    # ---- one conversion object through a history of set-up calls (colour temperatures included)
    temps = [1000.0, 999.0, 500.0, 0.0, -0.0, -50.0, 1500.0, 2700.0, 4500.0, 6500.0, 6599.0, 6600.0, 6601.0, 6700.0, 10000.0,
             39999.0, 40000.0, 40001.0, 1e6, 1e30]
    tb = [f2b(x) for x in temps] + [next_up(f2b(6600.0)), next_down(f2b(6600.0)), next_up(f2b(1000.0)), next_down(f2b(1000.0)),
                                    next_up(f2b(40000.0)), next_down(f2b(40000.0)), PINF, NINF]
    def colour():
        return rng.choice([(0, 0, 0), (255, 255, 255), (255, 0, 0), (1, 2, 3)]) if rng.random() < 0.2 else tuple(rng.getrandbits(8) for _ in range(3))
    def conv():
        c = colour()
        return "c%d,%d,%d" % c
    for t in tb:
        out.append((f"rgbwseq t{t} " + " ".join(conv() for _ in range(6)), True))
    for t in range(1000, 40001, 25 if thorough else 400):
        out.append((f"rgbwseq t{f2b(float(t))} {conv()} {conv()}", True))
    for _ in range(6000 if thorough else 900):
        steps = []
        last_t = None
        for _ in range(rng.randrange(2, 9)):
            k = rng.random()
            if k < 0.3:
                # repeat the previous temperature often: the set-up is skipped when the object already holds it
                t = last_t if (last_t is not None and rng.random() < 0.5) else (rng.choice(tb) if rng.random() < 0.5 else f2b(rng.uniform(500, 45000)))
                last_t = t
                steps.append(f"t{t}")
            elif k < 0.45:
                steps.append("r%d,%d,%d" % (rng.choice(refs) if rng.random() < 0.5 else colour()))
            elif k < 0.55:
                steps.append(f"f{rng.getrandbits(8)}")
            elif k < 0.65:
                steps.append("s")
            elif k < 0.7:
                steps.append("o")
            else:
                steps.append(conv())
        steps.append(conv())
        out.append(("rgbwseq " + " ".join(steps), True))
    # ---- buffer
    sizes = [0, 1, 2, 3, 8, 9]
    ops = []
    for n in sizes:
        ops += [f"a{hx(bytes(range(1, n + 1)))}", f"z{n}", f"r{n}"]
    ops += ["b200", "c", "p", "f7", "k0102", "k-", "r40", "a" + hx(bytes(range(100, 140)))]
    inits = ["o0", "o1", "o8", "v-", "v07", "v0102030405"]
    L = 4 if thorough else 3
    for init in inits:
        for n in range(1, L + 1):
            if n < L:
                seqs = itertools.product(ops, repeat=n)
            else:
                seqs = [tuple(rng.choice(ops) for _ in range(n)) for _ in range(60000 if thorough else 1500)]
            for seq in seqs:
                out.append((f"bufops {init} " + " ".join(seq), init.startswith("v") or "r40" in seq))
    for _ in range(40 if thorough else 6):
        seq = [rng.choice(ops) for _ in range(150)]
        out.append((f"bufops {rng.choice(inits[:3])} " + " ".join(seq), True))
    return out


