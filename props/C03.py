"""C03 — Arbitrary bytes are handled without memory errors, UB or hangs."""
import struct
from vlib import corpus
from vlib.skyb import hx, rand_bytes
from vlib.gen_traj import traj_block, yaw_block, f2b, PINF, NINF
from vlib.gen_lights import program
from vlib.gen_rth import plan

PID = "C03"
LEAN_MODULE = "Sb.Properties.C03Returns"
THEOREMS = [
    "Sb.C03.varuint_NF", "Sb.C03.traj_init_NF", "Sb.C03.trajectory_queries_total", "Sb.C03.container_init_NF",
    "Sb.C03.container_find_NF", "Sb.C03.rth_init_NF", "Sb.C03.rth_getPoint_NF", "Sb.C03.rth_evaluateAt_NF",
    "Sb.C03.yaw_init_NF", "Sb.C03.yaw_build_NF", "Sb.C03.lights_step_total", "Sb.C03.lights_seekLoop_only_fuel",
    "Sb.Proofs.buildSegment_total", "Sb.Proofs.traj_tiling0", "Sb.Proofs.walkLoop_eq", "Sb.C19.varuint_reads_below_n",
    "Sb.C03.fresh_seek_returns", "Sb.C03.ended_seek_returns", "Sb.C03.machine_terminates_seek_returns", "Sb.C03.machine_runs_seek_returns", "Sb.C03.seekLoop_returns",
    "Sb.C03.reachable_seek_returns", "Sb.C03.machine_history_seek_returns", "Sb.C03.seekLoop_returns_par", "Sb.C03.seekLoop_returns_dead"]
RULE = ("show files: fixtures and generated files, every prefix and single-byte edit with {00,01,7f,80,ff,+1,-1} of the small ones, "
        "structural and random multi-byte mutations, random strings up to 64 KiB (thorough); through both loading routes for all four "
        "kinds with the full query battery (positions/velocities/accelerations, durations, bounding box, take-off/landing proposals, "
        "light seeks forwards and backwards, yaw, RTH meta/points/evaluation and conversion of every evaluated entry) and the container "
        "walk/lookup. Raw blocks of each kind (extracted, generated, truncated, edited, random) with a fixed battery at times "
        "{-inf,-1,0,interior,boundaries,1e9,+inf}. Library built with ASan+UBSan(+float-cast-overflow), 5 s watchdog per case; every "
        "result is also compared with the model. Non-trivial: input not accepted-and-valid (i.e. mutated/hostile).")
ASSUMPTIONS = ["ASan/UBSan as the monitor of memory errors and undefined behaviour of the compiled library; uninitialised reads "
               "are not monitored (no MSan-instrumented libstdc++ here)"]

TIMES = [NINF, f2b(-1.0), 0, f2b(0.02), f2b(0.5), f2b(1.0), f2b(2.5), f2b(10.0), f2b(65.535), f2b(600.0), f2b(1e9), PINF]
STAMPS = [0, 1, 20, 500, 1000, 1001, 5000, 60000, 123456, 16777215, 20]


def traj_q():
    qs = []
    for t in TIMES:
        qs += [f"p{t}", f"v{t}", f"a{t}"]
    return " ".join(qs + ["d", "D", "E", "S", "s", "e"])


def yaw_q():
    return " ".join([f"y{t} r{t}" for t in TIMES] + ["d"])


def rth_q():
    return " ".join(["m"] + [f"p{i}" for i in range(6)] + [f"e{t}" for t in TIMES])


def light_q():
    return " ".join(f"{k}{t}" for t in STAMPS for k in "cys")


def mutate_block(rng, b, n):
    out = [b]
    for _ in range(n):
        g = bytearray(b)
        r = rng.random()
        if r < 0.3:
            out.append(b[:rng.randint(0, len(b))])
            continue
        if r < 0.6 and g:
            o = rng.randrange(len(g))
            g[o] = rng.choice(corpus.EDIT_VALUES + [(g[o] + 1) & 255, (g[o] - 1) & 255])
        elif r < 0.75 and g:
            a = rng.randrange(len(g))
            g[a:a + rng.randint(1, 4)] = rand_bytes(rng, rng.randint(0, 6))
        elif r < 0.9:
            g += rand_bytes(rng, rng.randint(1, 8))
        else:
            g = bytearray(rand_bytes(rng, rng.randint(0, 40)))
        out.append(bytes(g))
    return out


def generate(rng, tier):
    out = []
    thorough = tier == "thorough"
    seen = set()

    def emit(c, nt=True):
        if c not in seen:
            seen.add(c)
            out.append((c, nt))

    # show-file level
    files = []
    for name, f in corpus.fixtures():
        files.append(f)
        if len(f) < 3000 or thorough:
            files += corpus.mutations(rng, f, 150 if thorough else 14)
    for i in range(200 if thorough else 20):
        f = corpus.gen_show(rng, small=not thorough)
        files.append(f)
        files += corpus.mutations(rng, f, 300 if thorough else 24)
    files += corpus.random_strings(rng, 600 if thorough else 50, 65536 if thorough else 300)
    # a block that claims to reach (just) beyond offset 65535 of a short file: offset + length must be compared in more than
    # 16 bits.  The block sits behind a filler block so that offset + declared length wraps to a small value.
    from vlib.skyb import make_file
    for filler in (200, 250, 256, 300, 1000):
        for typ in (1, 2, 5, 4):
            body = rand_bytes(rng, 27)
            f = bytearray(make_file([(3, rand_bytes(rng, filler)), (typ, bytes(body))], 1))
            pos = len(f) - len(body) - 2          # the length field of the last block
            start = pos + 2
            for declared in (65535, 65280 + (len(body) & 255), 65536 - start, 65536 - start + 1, 65536 - start + len(body), 65536 - start - 1):
                if 0 <= declared <= 65535:
                    g = bytearray(f)
                    g[pos] = declared & 255
                    g[pos + 1] = declared >> 8
                    files.append(bytes(g))
    for f in files:
        h = hx(f)
        for k in "tlyr":
            emit(f"load2 {k} {h}")
        emit(f"walk m {h}")
        emit(f"walk f {h}")
        emit(f"find m {h} {rng.choice([1, 2, 4, 5, 3, 0])}")
    # raw blocks
    nb = 400 if thorough else 40
    for i in range(nb):
        b, _ = traj_block(rng, max_seg=8)
        for g in mutate_block(rng, b, 12 if thorough else 5):
            emit(f"traj {'bo'[i % 2]} {hx(g)} {traj_q()}")
        b, _ = yaw_block(rng, max_n=10)
        for g in mutate_block(rng, b, 12 if thorough else 5):
            emit(f"yawq {hx(g)} {yaw_q()}")
        b, _, _ = plan(rng, well_formed=rng.random() < 0.5)
        for g in mutate_block(rng, b, 12 if thorough else 5):
            emit(f"rth {hx(g)} {rth_q()}")
        b = program(rng)
        for g in mutate_block(rng, b, 8 if thorough else 3):
            emit(f"lightq {hx(g)} {light_q()}")
    # hand-made nasties
    for hxs in ["0c020c020c020c020c020c02020a0d0d0d0d0d0d", "02ffffffffffffffffffffffffffff01", "03ffffffffffffffffff01",
                "02e7cc99b3e6cc99b306", "12ffffffff7f", "12ffffffffffff01", "13ff", "1330", "13308080808010", "10ffffff05",
                "11000000", "0c", "0cff", "08", "0801", "04ffff", "0e0e0e", "0300", "0d0d0d", "16", "ff", "0f"]:
        emit(f"lightq {hxs} {light_q()}")
    for hxs in ["-", "00", "7f", "0a0100", "0a01000200030004", "0a0100020003008403", "0a0100020003008403ff", "0a0100020003008403ffe803",
                "8a0100020003008403ffffff", "0a0100020003008403000000", "0a01000200030084030100000100"]:
        emit(f"traj b {hxs} {traj_q()}")
        emit(f"traj o {hxs} {traj_q()}")
    return out


def finding_signature(case, detail):
    return "zero-time-cycle" if "[zero-time-cycle]" in detail else None
