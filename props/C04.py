"""C04 — Show-file container is parsed exactly as laid out."""
from vlib.skyb import make_file, hx, rand_bytes, ap_crc32

PID = "C04"
LEAN_MODULE = "Sb.Properties.C04"
THEOREMS = [
    "Sb.C04.enum_values", "Sb.C04.init_eq_spec", "Sb.C04.header_len", "Sb.C04.rewind_ok_iff", "Sb.C04.accept_iff",
    "Sb.C04.error_classes", "Sb.C04.iteration_eq_records", "Sb.C04.search_walkOf", "Sb.C04.rewind_idem",
    "Sb.C04.find_first_correct",
    "Sb.Proofs.walkLoop_eq", "Sb.Proofs.expWalk_eq_records", "Sb.Proofs.walk_from_start", "Sb.Proofs.findLoop_eq_search",
    "Sb.Proofs.init_spec",
]
RULE = ("files of 0..6 blocks with types 0..255 (0 and 1..5 favoured) and lengths {0,1,2,3,255,256,257,65535, seeded small}, "
        "versions 1/2, with and without (valid) checksum, plus unknown versions, broken magic, feature bytes with other bits; "
        "every truncation of the small files (<=80 bytes) and seeded truncations of large ones; walk (iteration + body reads) and "
        "find (lookup of each present type, type 0, an absent type) through both backends. Non-trivial: >=1 block or a truncation.")
ASSUMPTIONS = ["regular-file semantics of read/lseek for the descriptor route (memfd)"]


def rand_file(rng, big=False):
    nb = rng.choice([0, 1, 1, 2, 2, 3, 4, 6])
    blocks = []
    for _ in range(nb):
        r = rng.random()
        ty = 0 if r < 0.08 else rng.randint(1, 5) if r < 0.7 else rng.randint(0, 255)
        r = rng.random()
        if big and r < 0.15:
            ln = rng.choice([255, 256, 257, 65535, 1000])
        else:
            ln = rng.choice([0, 0, 1, 2, 3, rng.randint(0, 12)])
        blocks.append((ty, rand_bytes(rng, ln)))
    ver = rng.choice([1, 2, 2])
    cks = ver == 2 and rng.random() < 0.5
    feats = None
    if ver == 2 and rng.random() < 0.2:
        feats = rng.choice([2, 3, 0x80, 0x81, 0xfe, 0xff])
    f = make_file(blocks, ver, cks, feats)
    return f, blocks


def generate(rng, tier):
    out = []
    thorough = tier == "thorough"
    seen = set()

    def emit(f, types, nt=True, nblocks=0):
        h = hx(f)
        for route in "mf":
            c = f"walk {route} {h}"
            if c not in seen:
                seen.add(c)
                out.append((c, nt))
            for ty in types:
                c = f"find {route} {h} {ty}"
                if c not in seen:
                    seen.add(c)
                    out.append((c, nt))
                    # the same lookup after walking 1..n blocks forward (cursor parked anywhere, also at the end)
                    if nt and nblocks:
                        for k in sorted({1, 2, nblocks - 1, nblocks, nblocks + 1} - {0}):
                            out.append((f"find {route} {h} {ty} {k}", nt))

    # malformed headers
    for f in [b"", b"s", b"sky", b"skyb", b"skyb\x00", b"skyb\x03", b"skyb\x01", b"skyb\x02", b"skyb\x02\x00",
              b"skyb\x02\x01", b"skyb\x02\x01\x00\x00\x00", b"skyb\x02\x01\x00\x00\x00\x00", b"skyB\x01\x03\x00\x00",
              b"SKYB\x01", b"\x00kyb\x01", b"skyb\x02\x01\x01\x02\x03\x04\x03\x00\x00", b"skyb\xff\x00"]:
        emit(f, [1, 3], False)
    n_small = 400 if thorough else 70
    for _ in range(n_small):
        f, blocks = rand_file(rng)
        types = sorted({b[0] for b in blocks} | {0, 1, 250})[:5]
        emit(f, types, len(blocks) > 0, len(blocks))
        if len(f) <= 80:
            for cut in range(len(f)):
                g = f[:cut]
                emit(g, types[:3], True)
    for _ in range(60 if thorough else 8):
        f, blocks = rand_file(rng, big=True)
        types = sorted({b[0] for b in blocks} | {0, 2})[:4]
        emit(f, types, len(blocks) > 0, len(blocks))
        for _ in range(6):
            emit(f[:rng.randint(0, len(f))], types[:2], True)
    # checksummed files whose length is an exact multiple of the 256-byte read chunk (the read after the last full chunk
    # returns no data: that is the end of the file, not an error), their neighbours, and the same lengths after truncation
    for total in (255, 256, 257, 512, 768):
        body = total - 10 - 3 - 3
        f = make_file([(3, rand_bytes(rng, body)), (1, b"")], 2, True)
        assert len(f) == total, (len(f), total)
        emit(f, [1, 3, 9], True, 2)
        g = bytearray(f)
        g[20] ^= 1
        emit(bytes(g), [1, 3], True)
    f = make_file([(3, rand_bytes(rng, 700)), (2, rand_bytes(rng, 90))], 2, True)
    for cut in (256, 512, 768):
        emit(f[:cut], [2, 3], True)
    # offsets beyond 64 KiB and 128 KiB (block lengths are 16 bits, file offsets are not)
    for ver, cks in ((1, False), (2, True)):
        blocks = [(1, rand_bytes(rng, 40000)), (2, rand_bytes(rng, 40000)), (7, b"x"), (1, rand_bytes(rng, 100)), (3, rand_bytes(rng, 65535)), (9, rand_bytes(rng, 5))]
        f = make_file(blocks, ver, cks)
        emit(f, [1, 2, 3, 7, 9, 4], True, len(blocks))
        emit(f[:-3], [9, 3], True, len(blocks))
    return out
