"""C02 — Light colour and pyro state follow the bytecode semantics."""
from vlib.gen_lights import program, timestamps
from vlib.skyb import hx

PID = "C02"
LEAN_MODULE = "Sb.Properties.C02Machine"
THEOREMS = [
    "Sb.C02.opcodes_match_format", "Sb.C02.timing_constants", "Sb.C02.loopBegin_depth", "Sb.C02.loopEnd_depth",
    "Sb.C02.loopBegin_full", "Sb.C02.loopEnd_cases", "Sb.C02.pyro_mask", "Sb.C02.lerpChan_zero", "Sb.C02.lerpChan_one",
    "Sb.C02.lerpChan_le", "Sb.C02.ended_held", "Sb.C02.execCommand_ended", "Sb.C02.step_total",
    "Sb.C02.machine_running", "Sb.C02.machine_running_upTo", "Sb.C02.answer_on_chain_upTo", "Sb.C02.demoForever_runs", "Sb.C02.demoJ_wf", "Sb.C02.demoT_wf", "Sb.C02.demoT_terminates", "Sb.Proofs.Light.exec_trigger", "Sb.C02.demoJ_runs", "Sb.C02.jump_out_terminates", "Sb.C02.demoX_wf", "Sb.C02.demoX_terminates", "Sb.Proofs.Light.exec_jump", "Sb.C02.machine_ended", "Sb.C02.loop_repeats", "Sb.C02.demoL_terminates",
    "Sb.Proofs.Light.machine_chain", "Sb.Proofs.Light.machine_end", "Sb.Proofs.Light.step_machine", "Sb.Proofs.Light.loop_unrolled",
    "Sb.C02.straight_line_running", "Sb.C02.straight_line_ended", "Sb.C02.straight_fades_short", "Sb.C02.demo_wf",
    "Sb.Proofs.Light.chain_timeline", "Sb.Proofs.Light.chain_end", "Sb.Proofs.Light.exec_cmd", "Sb.Proofs.Light.varintAt_varint",
    "Sb.C02.answer_on_chain", "Sb.C09.fresh_shows_first_command", "Sb.C09.answers_up_to_latitude", "Sb.C02.steady_colour", "Sb.C02.next_event_sound",
    "Sb.Proofs.Light.execCommand_post", "Sb.Proofs.Light.chain_good", "Sb.Proofs.Light.seek_inv",
]
ASSUMPTIONS = ["no signal source attached (the C API offers none): channel commands yield black, triggers never fire",
               "inside a fade a channel may differ by less than one unit (+2^-10 float slack) from exact linear interpolation"]
RULE = ("grammar-based programs over all 22 opcodes (nested loops to depth 6, counts {0,1,2,3,255}, forward/backward/out-of-range/"
        "invalid jumps (out-of-range ones also in mid-program with commands behind them), clock resets, wait-until in the past and future, zero-length set/fade/sleep, truncated final command, unknown "
        "opcodes, multi-byte varints) in which every loop iteration and jump cycle consumes time; a FRESH player per timestamp; "
        "timestamps {0, every command start and start±1, points inside fades, last event ±, +60000, 2^24-1}; query kinds seek / "
        "colour / pyro. Non-trivial: program with a loop, jump or fade.")


def generate(rng, tier):
    out = []
    n = 2500 if tier == "thorough" else 350
    for i in range(n):
        p = program(rng)
        nt = any(b in p for b in (12, 18, 8, 9, 10, 11))
        for t in timestamps(rng, p):
            for k in "scy":
                out.append((f"lightq {hx(p)} {k}{t}", nt))
    return out
