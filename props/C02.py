"""C02 — Light colour and pyro state follow the bytecode semantics."""
from vlib.gen_lights import program, timestamps
from vlib.skyb import hx

PID = "C02"
LEAN_MODULE = "Sb.Properties.C02"
THEOREMS = []
RULE = ("grammar-based programs over all 22 opcodes (nested loops to depth 6, counts {0,1,2,3,255}, forward/backward/out-of-range/"
        "invalid jumps, clock resets, wait-until in the past and future, zero-length set/fade/sleep, truncated final command, unknown "
        "opcodes, multi-byte varints) in which every loop iteration and jump cycle consumes time; a FRESH player per timestamp; "
        "timestamps {0, every command start and start±1, points inside fades, last event ±, +60000, 2^24-1}; query kinds seek / "
        "colour / pyro. Non-trivial: program with a loop, jump or fade.")


def generate(rng, tier):
    out = []
    n = 2500 if tier == "thorough" else 350
    for i in range(n):
        p = program(rng)
        nt = any(b in p for b in (12, 18, 8, 9, 10, 11))
        for t in timestamps(rng, p):
            for k in "scy":
                out.append((f"lightq {hx(p)} {k}{t}", nt))
    return out
