"""C12 — An RTH entry converts to the trajectory it describes."""
from vlib.gen_traj import f2b, PINF, NINF

PID = "C12"
LEAN_MODULE = "Sb.Properties.C12RoundTrip"
THEOREMS = [
    "Sb.C12.phases_land", "Sb.C12.phases_goto_keeping_altitude", "Sb.C12.phases_goto_with_altitude_neck",
    "Sb.C12.neck_is_vertical", "Sb.C12.invalid_action", "Sb.C12.runPhases_invalid", "Sb.C12.runPhases_bad_duration", "Sb.C12.msec_invalid",
    "Sb.C12.msec_negative", "Sb.C12.hold_exact", "Sb.C12.leg_exact", "Sb.C16.appendLineAux_as_segments",
    "Sb.C12.convert_roundtrip", "Sb.C12.convert_passes_line", "Sb.C12.runPhases_as_calls", "Sb.C12.convert_as_calls", "Sb.C12.sample_converts",
    "Sb.C16.builder_roundtrip", "Sb.C16.passes_through_appendLine",
    "Sb.C12.convert_total", "Sb.C12.runPhases_total", "Sb.C12.msec_lt", "Sb.C16.holdForAux_segments", "Sb.C16.holdChunks_le",
]
NAN = 0x7FC00000
RULE = ("entries with each of the three actions (and invalid action codes), times/durations/delays from {0, 0.0005, 0.001, 59.999, 60, "
        "60.001, 120.5, 3600, 4e6, negative, NaN, inf}, start points and targets at k*32767, k*32767±1, ±127*32767 and beyond, "
        "fractional and seeded values, neck present/absent/zero-duration/negative height (neck only on go-to-with-altitude, as plan "
        "evaluation produces them; also stray neck values on other actions); the resulting bytes are compared exactly with the "
        "bit-exact model; on the bytes: total duration = sum of the phases in whole ms, positions probed along every leg within one "
        "quantum of the ideal path. Non-trivial: an entry whose legs are split into several segments or that needs scale > 1.")

TIMES = [0.0, 0.0005, 0.001, 1.0, 59.999, 60.0, 60.001, 120.5, 3600.0]
RARE_TIMES = [7200.0, 4294967.5, 4294968.0, -1.0, float("nan"), float("inf")]


def pick_t(rng, rare=0.06):
    r = rng.random()
    if r < rare:
        return rng.choice(RARE_TIMES)
    if r < 0.6:
        return rng.choice(TIMES)
    return round(rng.uniform(0, 200), rng.choice([0, 1, 3]))


def pick_c(rng):
    r = rng.random()
    k = rng.choice([1, 1, 2, 5, 64, 127])
    if r < 0.25:
        return rng.choice([k * 32767.0, k * 32767.0 + 1, k * 32767.0 - 1, -k * 32767.0, -k * 32767.0 - 1])
    if r < 0.3:
        return rng.choice([128 * 32767.0, 5e6, -5e6])
    if r < 0.6:
        return float(rng.randint(-20000, 20000))
    return rng.uniform(-40000, 40000) * rng.choice([1, 1, 10])


def fb(x):
    if x != x:
        return NAN
    if x == float("inf"):
        return PINF
    if x == float("-inf"):
        return NINF
    return f2b(x)


def generate(rng, tier):
    out = []
    n = 6000 if tier == "thorough" else 900
    for i in range(n):
        action = rng.choice([1, 2, 3, 3, 2]) if rng.random() < 0.97 else rng.choice([0, 4, 7])
        tm = pick_t(rng) if rng.random() < 0.9 else -5.0
        dur = pick_t(rng)
        pre = pick_t(rng) if rng.random() < 0.6 else 0.0
        post = pick_t(rng) if rng.random() < 0.6 else 0.0
        if action == 3 and rng.random() < 0.7:
            neck = rng.choice([500.0, -500.0, 0.0, 2000.0, rng.uniform(-3000, 3000)])
            nd = rng.choice([0.0, 2.0, 65.0, pick_t(rng, 0.02)])
        elif rng.random() < 0.05:
            neck, nd = rng.choice([(300.0, 1.0), (0.0, 2.0)])
        else:
            neck, nd = 0.0, 0.0
        tx, ty, alt = pick_c(rng), pick_c(rng), pick_c(rng)
        sx, sy, sz = pick_c(rng), pick_c(rng), pick_c(rng)
        if i % 23 == 0:
            # a target exactly at the origin (x = y = 0, also as -0.0) is a target like any other; so is altitude 0
            tx, ty = rng.choice([(0.0, 0.0), (-0.0, 0.0), (0.0, -0.0)])
            if i % 46 == 0:
                alt = 0.0
            if sx == 0 and sy == 0:
                sx = 1234.0
        syaw = rng.choice([0.0, 90.0, -45.5, 359.9, 720.0])
        vals = [tm, dur, tx, ty, alt, pre, post, neck, nd, sx, sy, sz, syaw]
        nt = (dur > 60 or pre > 60 or post > 60 or tm > 60) if all(v == v for v in (dur, pre, post, tm)) else False
        nt = nt or max(abs(tx), abs(ty), abs(alt), abs(sx), abs(sy), abs(sz)) > 32767
        out.append((f"rthconv {action} " + " ".join(str(fb(v)) for v in vals), bool(nt)))
    return out
