"""C19 — Binary codecs are exact inverses and respect their buffers."""
PID = "C19"
LEAN_MODULE = "Sb.Properties.C19"
THEOREMS = [
    "Sb.C19.parse_write_u16", "Sb.C19.parse_write_i16", "Sb.C19.parse_write_u32", "Sb.C19.parse_write_i32",
    "Sb.C19.write_u16_little_endian", "Sb.C19.write_u32_little_endian",
    "Sb.C19.varuint_spec", "Sb.C19.varuint_reads_below_n",
    "Sb.C19.rgb565_decode_encode", "Sb.C19.rgb565_encode_keeps_top_bits",
]
RULE = ("wr16/wri16: every 16-bit value; wr32/wri32: all bit-boundary patterns (2^k, 2^k±1, byte fills) plus seeded random; "
        "p16/p32: random byte strings; varu: hand-made boundary encodings + seeded random strings + runs of 9..300 continuation bytes cut at every interesting length; "
        "varu_grid: exhaustive enumeration of all strings of length<=2 (quick) / <=3 (thorough) over all bytes and of length<=5 "
        "(quick) / <=7 (thorough) over {00,01,0f,10,7f,80,81,ff}, at every start offset, on exactly-sized heap buffers "
        "(ASan red zone right behind byte n-1); r565d: all 65536 codes; r565e: seeded colours + r565e_all (all g,b for fixed r; "
        "all 256 r in thorough = all 2^24 colours). A case is non-trivial unless it is a duplicate; grid/all cases count once each.")
EXHAUSTIVE = {"quick": False, "thorough": True}
ASSUMPTIONS = ["fixed-width parse functions take no length: callers guarantee offset+size <= length (modelled as fault otherwise)"]

ALPHA = "00010f107f8081ff"


def generate(rng, tier):
    out = []
    thorough = tier == "thorough"
    for v in range(65536):
        out.append((f"wr16 {v}", True))
    step = 1 if thorough else 37
    for v in range(-32768, 32768, step):
        out.append((f"wri16 {v}", True))
    for v in (-32768, -1, 0, 1, 32767):
        out.append((f"wri16 {v}", True))
    pats = set()
    for k in range(33):
        for d in (-1, 0, 1):
            x = (1 << k) + d
            if 0 <= x < (1 << 32):
                pats.add(x)
    for byte in (0x00, 0x01, 0x7f, 0x80, 0xff, 0xaa, 0x55):
        for mask in range(16):
            x = 0
            for i in range(4):
                if mask >> i & 1:
                    x |= byte << (8 * i)
            pats.add(x)
    for _ in range(4000 if thorough else 600):
        pats.add(rng.getrandbits(32))
    for x in sorted(pats):
        out.append((f"wr32 {x}", True))
        s = x - (1 << 32) if x >= (1 << 31) else x
        out.append((f"wri32 {s}", True))
    for _ in range(3000 if thorough else 400):
        n = rng.randint(2, 12)
        b = bytes(rng.getrandbits(8) for _ in range(n))
        out.append((f"p16 {b.hex()} {rng.randint(0, n - 2)}", True))
        n = rng.randint(4, 12)
        b = bytes(rng.getrandbits(8) for _ in range(n))
        out.append((f"p32 {b.hex()} {rng.randint(0, n - 4)}", True))
    # fixed-width integers at offsets beyond 65535 (offsets are size_t, not 16-bit): on both sides of 65536 and far beyond
    big = bytes(rng.getrandbits(8) for _ in range(65536 + 300))
    big2 = bytes((i * 7 + 3) & 255 for i in range(131072 + 16))
    for off in (65533, 65534, 65535, 65536, 65537, 65540, 65536 + 255, 65536 + 256):
        out.append((f"p16 {big.hex()} {off}", True))
        out.append((f"p32 {big.hex()} {off}", True))
    for off in (131071, 131072, 131073, 131080):
        out.append((f"p16 {big2.hex()} {off}", True))
        out.append((f"p32 {big2.hex()} {off}", True))
    # varuint: boundary encodings
    hand = ["-", "00", "7f", "80", "8000", "ff7f", "ffffffff0f", "ffffffff10", "ffffffff7f", "ffffffff8f00",
            "808080808000", "8080808000", "80808080808080808001", "ffffffffffffffffff", "8080808010",
            "ffffffff0f99", "81808080808080", "0180", "ff", "ffff", "ffffff", "ffffffff", "ffffffffff",
            # a fifth byte whose excess bits are not the lowest one: 2^33, 2^34, 2^35 and mixtures (overflow, never a wrapped value)
            "e480808020", "e48080802f", "8780808040", "878080804f", "8580808060", "858080806f", "8080808070", "ffffffff7e",
            "808080801f", "8080808011"]
    for hx in hand:
        n = 0 if hx == "-" else len(hx) // 2
        for cl in range(n + 1):
            for off in range(cl + 2):
                out.append((f"varu {hx} {cl} {off}", True))
    for _ in range(20000 if thorough else 3000):
        n = rng.randint(0, 9)
        bs = []
        for _ in range(n):
            r = rng.random()
            if r < 0.45:
                bs.append(rng.choice([0x80, 0x81, 0xff, 0x8f, 0x90]))
            elif r < 0.7:
                bs.append(rng.choice([0x00, 0x01, 0x0f, 0x10, 0x7f]))
            else:
                bs.append(rng.getrandbits(8))
        hx = bytes(bs).hex() or "-"
        cl = rng.randint(0, n)
        out.append((f"varu {hx} {cl} {rng.randint(0, cl + 1)}", True))
    # encodings far longer than any 64-bit value needs: the whole number is skipped however long it is, and a buffer that ends
    # inside it is a parse error, not an overflow
    for n in list(range(9, 24)) + [31, 32, 33, 40, 63, 64, 65, 127, 128, 129, 255, 256, 257, 300]:
        for cont in (0x80, 0xff, 0x81):
            for tail in ("", "00", "01", "7f", "0005", "7f80"):
                hx = bytes([cont] * n).hex() + tail
                L = len(hx) // 2
                for cl in sorted({L, L - 1, n, n - 1, n + 1} & set(range(L + 1))):
                    for off in (0, 1, 2):
                        out.append((f"varu {hx} {cl} {off}", True))
    for _ in range(3000 if thorough else 400):
        n = rng.randint(9, 40)
        bs = [rng.choice([0x80, 0x81, 0xff, 0x8f, 0x90, rng.getrandbits(8) | 0x80]) for _ in range(n)]
        for _ in range(rng.randint(0, 3)):
            bs.append(rng.getrandbits(8))
        cl = rng.choice([len(bs), len(bs), rng.randint(0, len(bs))])
        out.append((f"varu {bytes(bs).hex()} {cl} {rng.randint(0, 3)}", True))
    # exhaustive grids
    out.append(("varu_grid * 0 -", True))
    out.append(("varu_grid * 1 -", True))
    out.append(("varu_grid * 2 -", True))
    if thorough:
        for b0 in range(256):
            out.append((f"varu_grid * 3 {b0:02x}", True))
        for L in range(1, 6):
            out.append((f"varu_grid {ALPHA} {L} -", True))
        for a in range(8):
            for b in range(8):
                pre = ALPHA[2 * a:2 * a + 2] + ALPHA[2 * b:2 * b + 2]
                out.append((f"varu_grid {ALPHA} 6 {pre}", True))
                out.append((f"varu_grid {ALPHA} 7 {pre}", True))
    else:
        for L in range(1, 6):
            out.append((f"varu_grid {ALPHA} {L} -", True))
    for c in range(65536):
        out.append((f"r565d {c}", True))
    for _ in range(20000 if thorough else 4000):
        out.append((f"r565e {rng.getrandbits(8)} {rng.getrandbits(8)} {rng.getrandbits(8)}", True))
    rs = range(256) if thorough else sorted({0, 1, 7, 8, 127, 128, 248, 255} | {rng.getrandbits(8) for _ in range(8)})
    for r in rs:
        out.append((f"r565e_all {r}", True))
    return out
