"""C16 — Trajectory builder round-trips and failed calls change nothing."""
import itertools
from vlib.gen_traj import f2b

PID = "C16"
LEAN_MODULE = "Sb.Properties.C16Yaw"
THEOREMS = [
    "Sb.C16.constants", "Sb.C16.splitDur_sum", "Sb.C16.splitDur_le", "Sb.C16.appendMany_append",
    "Sb.C16.appendLineAux_as_segments", "Sb.C16.holdChunks_sum", "Sb.C16.holdForAux_segments", "Sb.C16.appendSegment_last", "Sb.C16.init_invalid_scale",
    "Sb.C16.setStart_after_segment", "Sb.C16.appendLine_rejects",
            "Sb.C16.scaleCoord_within_quantum", "Sb.C16.scaleCoord_quotient_small", "Sb.Proofs.floor_round_within_one", "Sb.Proofs.roundF32_intCast", "Sb.Proofs.roundF32_mono",
            "Sb.C16.appendLine_ok", "Sb.C16.appendLineAux_ok", "Sb.C16.scaleCoord_between", "Sb.C16.validC_mid", "Sb.C16.validPt_origin",
            "Sb.Proofs.midpoint_between", "Sb.Proofs.repr_round", "Sb.Proofs.repr_two_mul",
            "Sb.C16.finish_restarts", "Sb.C16.history_finish_restarts", "Sb.C16.applyCall_hdr",
            "Sb.C16.yawDec_within_tenth", "Sb.C16.passes_through_appendLine_tenth", "Sb.C16.trunc_round_within_one", "Sb.C16.fmod360_spec", "Sb.C16.builder_roundtrip", "Sb.C16.passes_through_appendLine", "Sb.C16.passes_through_hold", "Sb.C16.history_good",
            "Sb.C16.decodeSeg_encoded", "Sb.C16.appendSegment_inv", "Sb.C16.appendLine_inv", "Sb.C16.holdFor_inv", "Sb.C16.setStart_inv",
            "Sb.C16.init_inv", "Sb.C16.posAt_at_total", "Sb.C16.posAt_after_call", "Sb.C16.rel_within_quantum", "Sb.C16.Enc.decode"]
ASSUMPTIONS = ["finite coordinates (NaN would make floorf(NaN) -> int16 conversion undefined; the property quantifies over finite ones)"]
RULE = ("all call sequences up to length 4 (quick: 3) over a small alphabet {set-start ok/unrepresentable, append-line short/exactly "
        "60000/60001/120001/3.6e6 ms to representable and unrepresentable targets, hold 0/59999/60000/60001/180000 ms, finish} after "
        "init with scales {1,2,127} (the builder object is not zero-filled before its first init; a successful init on the builder in use is one of the calls); init with scale 0/128/255; seeded random sequences of 200 calls; coordinates inside, exactly at "
        "and just beyond ±32767·scale, fractional coordinates, yaw incl. negative and >= 360; the builder's buffer is compared byte for "
        "byte after every call (a rejected call must leave it unchanged) and the finished trajectory's bytes and total duration too; "
        "at every finish the handed-over bytes are read with the format specification and the property's own statement is evaluated "
        "on them (total = sum of the requested durations, straight segments, within one quantum of the point of every call at its "
        "cumulative time, also for the calls that follow an earlier finish). "
        "Non-trivial: a sequence containing a rejected call or a split segment.")


def vec(x, y, z, w):
    return f"{f2b(x)},{f2b(y)},{f2b(z)},{f2b(w)}"


def alphabet(scale):
    lim = 32767.0 * scale
    return [
        "S" + vec(1.0 * scale, -2.0 * scale, 3.5 * scale, 90.0),
        "S" + vec(lim, -lim - scale, 0.0, -45.0),
        "S" + vec(0.0, lim + scale, 0.0, 0.0),          # y not representable
        "S" + vec(0.0, 0.0, -lim - 2 * scale, 0.0),      # z not representable
        "A" + vec(10.0 * scale, 0.0, 5.0 * scale, 0.0) + ",1000",
        "A" + vec(10.0 * scale, 20.0 * scale, 5.0 * scale, 400.0) + ",60000",
        "A" + vec(-7.0 * scale, 20.0 * scale, 0.0, 359.96) + ",60001",
        "A" + vec(3.0 * scale, 3.0 * scale, 3.0 * scale, 10.0) + ",120001",
        "A" + vec(0.0, 1e6 * scale, 0.0, 0.0) + ",500",            # y not representable
        "A" + vec(5.0, 5.0, 40000.0 * scale, 0.0) + ",130000",     # z not representable, would be split
        "A" + vec(lim, lim, lim, 0.0) + ",3600000",
        "A" + vec(10.0 * scale, 0.0, 5.0 * scale, 0.0) + ",0",
        "H0", "H59999", "H60000", "H60001", "H180000",
        "F",
        "J0,0", "J200,1",       # a refused init (invalid scale) on the live builder
        f"R{scale},1",          # a successful init on the live builder (not destroyed first): it starts afresh
    ]


def generate(rng, tier):
    out = []
    thorough = tier == "thorough"
    L = 4 if thorough else 3
    for scale in (1, 2, 127):
        alpha = alphabet(scale)
        for n in range(1, L + 1):
            seqs = itertools.product(alpha, repeat=n)
            if n == L and not thorough:
                seqs = [tuple(rng.choice(alpha) for _ in range(n)) for _ in range(2500)]
            elif n == L:
                seqs = [tuple(rng.choice(alpha) for _ in range(n)) for _ in range(40000)]
            for seq in seqs:
                nt = any(s.startswith("S") and alpha.index(s) in (2, 3) or s in (alpha[8], alpha[9], alpha[6], alpha[7], alpha[10]) for s in seq if s in alpha)
                out.append((f"bld I{scale},{rng.choice([0, 1])} " + " ".join(seq), bool(nt)))
    for sc in (0, 128, 255):
        out.append((f"bld I{sc},0 S{vec(0, 0, 0, 0)}", True))
    for _ in range(60 if thorough else 12):
        scale = rng.choice([1, 2, 5, 10, 127, rng.randint(1, 127)])
        lim = 32767.0 * scale
        calls = []
        for _ in range(200):
            r = rng.random()
            if r < 0.08:
                calls.append("F")
            elif r < 0.1:
                calls.append(f"J{rng.choice([0, 128, 200, 255])},{rng.choice([0, 1])}")
            elif r < 0.115:
                calls.append(f"R{scale},{rng.choice([0, 1])}")
            elif r < 0.2:
                calls.append("S" + vec(rng.uniform(-lim, lim) * rng.choice([1, 1, 1.1]), rng.uniform(-lim, lim), rng.uniform(-lim, lim), rng.uniform(-720, 720)))
            elif r < 0.35:
                calls.append("H" + str(rng.choice([0, 1, 59999, 60000, 60001, 120000, 120001, rng.randint(0, 400000)])))
            else:
                c = [rng.choice([0.0, lim, -lim, lim + scale, -lim - scale, -lim - 2 * scale, rng.uniform(-lim, lim), rng.uniform(-lim, lim) * 1.05,
                                 float(rng.randint(-1000, 1000)), rng.randint(-1000, 1000) + 0.5]) for _ in range(3)]
                ms = rng.choice([0, 1, 1000, 59999, 60000, 60001, 120001, 3600000, rng.randint(0, 300000)])
                calls.append("A" + vec(c[0], c[1], c[2], rng.uniform(-720, 720)) + f",{ms}")
        out.append((f"bld I{scale},{rng.choice([0, 1])} " + " ".join(calls), True))
    # short histories whose total is not a round number: the finished trajectory lasts exactly the sum of the durations asked
    # for, to the millisecond (totals that do not survive a detour through binary32 seconds, and totals beyond 2^24 ms)
    odd = [251, 253, 502, 506, 1004, 2001, 4002, 8011, 16300, 32011, 64019, 100003, 119999]
    hist = [[("A", m)] for m in odd] + [[("A", 1500), ("H", 2502), ("A", 4009)], [("H", 10800000), ("A", 7200001)],
                                         [("A", 16777217)], [("H", 16777216), ("A", 1)], [("A", 59999), ("A", 60001), ("H", 3)]]
    for _ in range(1500 if thorough else 300):
        hist.append([(rng.choice("AAH"), rng.randint(1, 120000)) for _ in range(rng.choice([1, 1, 2, 3]))])
    for h in hist:
        scale = rng.choice([1, 2, 10])
        calls = ["S" + vec(10.0 * scale, -20.0 * scale, 5.0 * scale, 30.0)]
        for i, (k, m) in enumerate(h):
            if k == "H":
                calls.append(f"H{m}")
            else:
                calls.append("A" + vec(float((i + 2) * 100 * scale), float(-50 * scale * i), float(40 * scale), 30.0 + 10 * i) + f",{m}")
        calls.append("F")
        out.append((f"bld I{scale},1 " + " ".join(calls), True))
    return out
