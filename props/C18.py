"""C18 — Polynomial toolkit: construction, calculus and root finding are consistent."""
import math
from fractions import Fraction as Fr
from vlib.gen_traj import f2b, b2f

PID = "C18"
LEAN_MODULE = "Sb.Properties.C18Cardano"
THEOREMS = ["Sb.C18.eval_deriv", "Sb.C18.eval_scale", "Sb.C18.eval_addConstant", "Sb.C18.eval_stretch", "Sb.C18.getDegree_eq",
            "Sb.C18.makeLinear_eval", "Sb.C18.makeLinear_ends", "Sb.C18.makeLinear_tiny", "Sb.C18.makeBezier_duration", "Sb.C18.makeBezier_const",
            "Sb.C18.makeBezier_two", "Sb.C18.makeBezier_length", "Sb.C18.solve_linear", "Sb.C18.idealSolve3_correct", "Sb.C18.idealSolve4_correct", "Sb.C18.depress", "Sb.C18.one_root", "Sb.C18.double_root", "Sb.C18.three_roots", "Sb.C18.cuberoots_conj", "Sb.C18.cuberoot_facts", "Sb.C18.cbrt_cube", "Sb.C18.idealTouches4_spec", "Sb.C18.idealTouches4_first", "Sb.C18.idealTouches3_spec", "Sb.C18.leftmost_some", "Sb.C18.sum4_exact", "Sb.C18.sum4_exact_horner", "Sb.C18.sum4_exact_pairwise", "Sb.C18.Dy.repr", "Sb.C18.dyadicSafe_mem",
            "Sb.C18.touches3_shortcut_above", "Sb.C18.touches3_shortcut_below", "Sb.C18.cubic_deriv_nonneg",
            "Sb.C18.touches4_shortcut_above", "Sb.C18.touches4_shortcut_below", "Sb.C01.makeBezier_eq_bernstein",
            "Sb.Corr.Cert.pos_sound", "Sb.Corr.Cert.root_sound", "Sb.Corr.Cert.segs_cover", "Sb.Corr.Cert.segs_roots", "Sb.Corr.Cert.partition_complete", "Sb.Corr.Cert.partition_sound", "Sb.Corr.Cert.reachesCert_true", "Sb.Corr.Cert.reachesCert_false", "Sb.Corr.Cert.hasRootCert_true", "Sb.Corr.Cert.hasRootCert_false", "Sb.Corr.Cert.rootsCert_complete", "Sb.Corr.Cert.rootsCert_sound", "Sb.Corr.Cert.sqrt2Segs_ok"]
RULE = ("coefficient / control-point vectors of length 0..8 (and 9, 10 for the clamping of sb_poly_make), magnitudes {1, 10, 1e3, 1e6}, "
        "integers and arbitrary floats, evaluation points in [-2,2] incl. 0, ±1, ±2; stretch factors and durations with magnitude in "
        "[1/64, 64] of both signs plus durations below FLT_EPSILON for make_linear; scale factors and constants incl. 0 and negatives. "
        "Root-related queries: degree <= 3 with leading coefficient >= 5% of the largest lower-order coefficient (and exactly zero "
        "leading coefficients, which must dispatch to the lower degree), right-hand sides at values taken on [0,1], at the end points, "
        "at p(0) and p(1) of polynomials whose coefficients are small multiples of 1/16 (exact end-point solutions), at interior extrema (double roots), outside the range, and on integer polynomials with exactly representable multiple roots; "
        "degree 4..7 only for the 'unimplemented' answers. Non-trivial: at least one coefficient.")
ASSUMPTIONS = ["float32 rounding of the implementation is bounded by the per-operation error bounds written in Sb/Corr/PolyOps.lean",
               "root finding (sqrtf/cbrtf/cpowf) is judged by the exact real-root oracle (answers certified, Sb/Proofs/CertSound.lean) with the tolerances rootTol=1/100, residTol=1/500, extTol=1/20000 (calibrated, DESIGN.md C18)"]


def fb(x):
    return str(f2b(x))


def rf(rng, mag):
    r = rng.random()
    if r < 0.25:
        return float(rng.randint(-int(min(mag, 1e6)), int(min(mag, 1e6))))
    if r < 0.3:
        return 0.0
    return b2f(f2b(rng.uniform(-mag, mag)))


def well_conditioned(rng, deg, mag):
    for _ in range(1000):
        cs = [rf(rng, mag) for _ in range(deg + 1)]
        lead = abs(cs[-1])
        low = max([abs(c) for c in cs[1:-1]] + [0.0])
        if lead > 0 and lead >= 0.05 * low:
            return cs
    return [0.0] * deg + [1.0]


def pe(cs, u):
    return sum(c * u ** k for k, c in enumerate(cs))


def generate(rng, tier):
    out = []
    thorough = tier == "thorough"
    pts = [0.0, 1.0, -1.0, 2.0, -2.0, 0.5, 0.25, 1e-3]
    # --- construction
    for n in range(0, 11):
        for _ in range(40 if thorough else 8):
            mag = rng.choice([1, 10, 1e3, 1e6])
            xs = [rf(rng, mag) for _ in range(n)]
            out.append((f"polymk m {n} " + " ".join(fb(x) for x in xs), n > 0))
    out.append(("polymk z", False))
    for _ in range(20):
        out.append((f"polymk c {fb(rf(rng, 1e6))}", True))
    durs = [1.0, 2.0, 0.5, -1.0, 10.0, 0.001, 60.0, 1 / 64, 64.0, -3.0, 1.19e-7, 1.2e-7, 1e-7, 5e-8, -1e-8, 1.1920929e-07]
    for d in durs:
        for _ in range(6 if thorough else 2):
            mag = rng.choice([1, 1e3, 1e6])
            out.append((f"polymk l {fb(d)} {fb(rf(rng, mag))} {fb(rf(rng, mag))}", True))
    for n in range(0, 11):
        for _ in range(60 if thorough else 10):
            mag = rng.choice([1, 10, 1e3, 1e6])
            d = rng.choice([1.0, 1.0, 2.0, 0.5, -1.0, 10.0, 1 / 64, 64.0, -3.0, b2f(f2b(rng.uniform(0.02, 60)))])
            xs = [rf(rng, mag) for _ in range(n)]
            out.append((f"polymk b {fb(d)} {n} " + " ".join(fb(x) for x in xs), n > 0))
    # --- calculus and evaluation
    for n in range(0, 9):
        for _ in range(60 if thorough else 10):
            mag = rng.choice([1, 10, 1e3, 1e6])
            cs = [rf(rng, mag) for _ in range(n)]
            qs = []
            for t in rng.sample(pts, 3) + [b2f(f2b(rng.uniform(-2, 2)))]:
                qs.append("e" + fb(t))
            qs += ["g", "d"]
            for k in (rng.choice([0.0, 1.0, -1.0, 2.0, 1000.0, -0.001]), rf(rng, 100)):
                qs.append("k" + fb(k))
            for k in (rng.choice([1.0, -1.0, 2.0, 0.5, 64.0, 1 / 64, 10.0, -3.0]), b2f(f2b(rng.choice([-1, 1]) * rng.uniform(1 / 64, 64)))):
                qs.append("s" + fb(k))
            for k in (0.0, rf(rng, mag)):
                qs.append("a" + fb(k))
            qs.append("4" + fb(rng.choice(pts)))
            if n >= 6:
                qs += ["S" + fb(0.0), "T" + fb(rf(rng, mag))]
            out.append((f"poly {n} " + " ".join(fb(c) for c in cs) + " " + " ".join(qs), n > 0))
    # --- root finding, degree <= 3
    def root_queries(cs):
        vals = [pe(cs, u) for u in (0.0, 0.1, 0.3, 0.5, 0.8, 0.95, 1.0)]
        lo, hi = min(vals), max(vals)
        span = max(hi - lo, 1e-3 * max(abs(hi), abs(lo), 1.0))
        ys = [vals[0], vals[-1], rng.choice(vals), b2f(f2b(rng.uniform(lo, hi))), b2f(f2b(rng.uniform(lo, hi))),
              b2f(f2b(lo - 0.25 * span)), b2f(f2b(hi + 0.25 * span)), 0.0]
        # interior extremum values (double roots) for quadratics: c - b^2/(4a)
        if len(cs) == 3 and cs[2] != 0:
            ys.append(b2f(f2b(cs[0] - cs[1] * cs[1] / (4 * cs[2]))))
        # right-hand sides close to a stationary value of a cubic: two solutions a moderate distance apart (they must both be
        # reported, not merged into one at the stationary point) or none nearby (none may be invented)
        if len(cs) == 4 and cs[3] != 0:
            a3, b3, c3 = 3 * cs[3], 2 * cs[2], cs[1]
            disc = b3 * b3 - 4 * a3 * c3
            if disc > 0:
                for sgn in (1, -1):
                    u = (-b3 + sgn * math.sqrt(disc)) / (2 * a3)
                    if -1.0 <= u <= 2.0:
                        pv = pe(cs, u)
                        curv = 2 * cs[2] + 6 * cs[3] * u          # p''(u)
                        if curv != 0:
                            w = rng.choice([0.03, 0.06, 0.1, 0.15])   # half distance between the two solutions
                            dy = 0.5 * abs(curv) * w * w
                            ys.append(pv - dy if curv < 0 else pv + dy)   # two solutions about 2w apart
                            ys.append(pv + dy if curv < 0 else pv - dy)   # the polynomial stays away by dy on this side
        qs = []
        for y in ys:
            y = b2f(f2b(y))
            qs.append("S" + fb(y))
            qs.append("T" + fb(y))
        qs.append("X")
        return qs
    for deg in (0, 1, 2, 3):
        for _ in range(600 if thorough else 90):
            mag = rng.choice([1, 10, 1e3, 1e6])
            cs = well_conditioned(rng, deg, mag)
            # sometimes pad with exactly-zero (or denormal) leading coefficients: must dispatch to the lower degree
            r = rng.random()
            pad = [] if r < 0.8 else [0.0] * rng.randint(1, 3) if r < 0.95 else [1e-40] * rng.randint(1, 2)
            full = (cs + pad)[:8]
            qs0 = root_queries(cs)
            out.append((f"poly {len(full)} " + " ".join(fb(c) for c in full) + " " + " ".join(qs0), True))
            # the same equation scaled by an exact power of two (coefficients and right-hand sides): root finding must not
            # depend on the absolute size of the numbers
            if rng.random() < 0.35:
                # (2^-60 only for genuine cubics: below about 2^-55 the discriminant b^2-4ac of the quadratic formula is a denormal)
                f = 2.0 ** -rng.choice([10, 24, 40, 60] if (deg == 3 and not pad) else [10, 24, 40])
                def sc(q):
                    return q if q == "X" else q[0] + fb(b2f(int(q[1:])) * f)
                out.append((f"poly {len(full)} " + " ".join(fb(c * f) for c in full) + " " + " ".join(sc(q) for q in qs0), True))
    # cubics that start above the value, rise first and then dip down to it inside (0,1), with a leading coefficient below 1
    # (and, as controls, above 1): 'touches' may not conclude 'never decreases' from a wrong bound on the derivative's minimum
    made = 0
    tries = 0
    while made < (300 if thorough else 60) and tries < 100000:
        tries += 1
        a = rng.choice([rng.uniform(0.05, 0.95), rng.uniform(0.05, 0.95), rng.uniform(1.0, 40.0)])
        b = -rng.uniform(0.3, 2.9) * a
        lo_c, hi_c = b * b * a / 3, b * b / (4 * a)
        if a >= 1:
            lo_c, hi_c = 0.0, b * b / (3 * a)
        if not lo_c < hi_c:
            continue
        c = rng.uniform(lo_c, hi_c * 0.98)
        if 3 * a + 2 * b + c < 0 or c < 0:
            continue
        d = rng.choice([2.0, 0.0, -5.0, 100.0])
        cs = [b2f(f2b(d)), b2f(f2b(c)), b2f(f2b(b)), b2f(f2b(a))]
        # the dip: the larger root of p'
        disc = 4 * cs[2] ** 2 - 12 * cs[3] * cs[1]
        if disc <= 0:
            continue
        u = (-2 * cs[2] + math.sqrt(disc)) / (6 * cs[3])
        if not 0.15 < u < 0.9:
            continue
        pmin = pe(cs, u)
        span = max(abs(pe(cs, 1.0) - pmin), abs(cs[0] - pmin), 1e-3)
        if not pmin < cs[0]:
            continue
        made += 1
        ys = [pmin + 0.2 * (cs[0] - pmin), pmin + 0.02 * span, pmin - 0.05 * span]
        qs = []
        for y in ys:
            qs += ["T" + fb(b2f(f2b(y))), "S" + fb(b2f(f2b(y)))]
        out.append((f"poly 4 " + " ".join(fb(x) for x in cs) + " " + " ".join(qs), True))
    # integer polynomials with exactly representable (multiple) roots
    small = [-2.0, -1.0, -0.5, 0.0, 0.25, 0.5, 1.0, 2.0, 3.0]
    for _ in range(300 if thorough else 60):
        k = rng.choice([2, 3])
        rs = [rng.choice(small) for _ in range(k)]
        a = float(rng.choice([1, -1, 2, 4, -8]))
        cs = [a]
        for r in rs:  # multiply by (x - r)
            new = [0.0] * (len(cs) + 1)
            for i, c in enumerate(cs):
                new[i + 1] += c
                new[i] -= c * r
            cs = new
        y0 = float(rng.choice([0, 0, 1, -3]))
        cs[0] += y0
        out.append((f"poly {len(cs)} " + " ".join(fb(c) for c in cs) + f" S{fb(y0)} T{fb(y0)} X S{fb(y0 + 1)} T{fb(y0 + 1)}", True))
    # end-point solutions that are exact: coefficients and right-hand side are multiples of 1/16 below 2^10, so p(0) and p(1) are
    # computed without any rounding in every summation order - when the value asked equals p(1) (or p(0)) a solution lies in
    # [0,1] and 'touches' has to say so, also when the closed formula puts the root a float step outside the interval
    for _ in range(1500 if thorough else 300):
        k = rng.choice([3, 3, 4])
        for _t in range(50):
            cs = [rng.randint(-9600, 9600) / 16.0 for _ in range(k)]
            lead, low = abs(cs[-1]), max(abs(c) for c in cs[1:-1])
            if lead != 0 and lead >= 0.05 * low:
                break
        else:
            continue
        y1 = sum(cs)
        out.append((f"poly {k} " + " ".join(fb(c) for c in cs) + f" T{fb(y1)} S{fb(y1)} T{fb(cs[0])} S{fb(cs[0])}", True))
    # Bezier-shaped cubics on [0,1] (what the trajectory code asks)
    for _ in range(600 if thorough else 90):
        sc = rng.choice([1, 10, 127])
        P = [rng.randint(-32768, 32767) * sc if rng.random() < 0.4 else rng.randint(-3000, 3000) * sc for _ in range(4)]
        if rng.random() < 0.3:
            P[1] = P[0]
        if rng.random() < 0.3:
            P[2] = P[3]
        cs = [float(P[0]), float(3 * (P[1] - P[0])), float(3 * (P[0] - 2 * P[1] + P[2])), float(P[3] - 3 * P[2] + 3 * P[1] - P[0])]
        cs = [b2f(f2b(c)) for c in cs]
        lead = abs(cs[3])
        low = max(abs(cs[1]), abs(cs[2]))
        if lead == 0 or lead < 0.05 * low:
            continue
        out.append((f"poly 4 " + " ".join(fb(c) for c in cs) + " " + " ".join(root_queries(cs)), True))
    # one cubic per branch pattern of the touch test (and its mirror image, which takes the "value above" branches)
    from vlib.gen_stats import stratified_cubics
    for (z0, p) in stratified_cubics(rng, 8000 if thorough else 2000, 2 if thorough else 1):
        for sign in (1.0, -1.0):
            P = [sign * z0, sign * p[0], sign * p[1], sign * p[2]]
            cs = [P[0], 3 * (P[1] - P[0]), 3 * (P[0] - 2 * P[1] + P[2]), P[3] - 3 * P[2] + 3 * P[1] - P[0]]
            cs = [b2f(f2b(float(c))) for c in cs]
            vals = [pe(cs, i / 40) for i in range(41)]
            lo, hi = min(vals), max(vals)
            qs = []
            for frac in (-0.05, 0.02, 0.25, 0.5, 0.75, 0.98, 1.05):
                y = b2f(f2b(lo + (hi - lo) * frac))
                qs += ["T" + fb(y), "S" + fb(y)]
            out.append((f"poly 4 " + " ".join(fb(c) for c in cs) + " " + " ".join(qs) + " X", True))
    return out
