"""C01 — Trajectory position and duration follow the format definition."""
from vlib.gen_traj import traj_block, probe_times
from vlib.skyb import hx

PID = "C01"
LEAN_MODULE = "Sb.Properties.C01Corollaries"
THEOREMS = ["Sb.C01.secF32_close", 
    "Sb.C01.constants", "Sb.C01.segment_formats_match_format", "Sb.C01.numCoords_of_flags", "Sb.C01.makeBezier_eq_bernstein", "Sb.C01.init_header", "Sb.C01.position_eq_spec",
    "Sb.C01.duration_eq_sum", "Sb.C01.yaw_in_range",
    "Sb.Proofs.buildSegment_spec", "Sb.Proofs.seek_pos_spec", "Sb.Proofs.durLoop_spec", "Sb.Proofs.bezier_zero", "Sb.Proofs.bezier_one",
    "Sb.Proofs.bezier8", "Sb.Proofs.bezier4", "Sb.Proofs.fac_vals",
    "Sb.C01.decodeSegs_chained", "Sb.C01.posAt_segment_start", "Sb.C01.posAt_segment_end", "Sb.C01.posAt_joins", "Sb.C01.posAt_zero", "Sb.C01.position_eq_spec_of_block",
]
ASSUMPTIONS = ["theorems are about exact rational arithmetic (secExact); float32 rounding of the implementation is bounded by the "
               "Lean-defined tolerance tolPos of Sb/Corr/Traj.lean (DESIGN.md section 4, C01)"]
RULE = ("trajectory blocks: scale 0..127 (0,1,10,127 favoured), 0..40 segments, every combination of constant/linear/cubic/degree-7 "
        "encodings per axis, durations {1,2,999,1000,65535,seeded}, coordinates {±32767,-32768,0,seeded}, negative and >=3600 yaw; "
        "fresh player per query at times {-inf,<0,0,every boundary exactly and ±1 ulp, interior fractions, end, beyond, 1e9, +inf}; "
        "all duration queries (trajectory ms/sec, player, statistics; seconds within 2 ulp of ms/1000), start/end position; both storage modes; "
        "a 70 KB raw block and blocks of 2000..6000 short segments (duration sums). "
        "Non-trivial: at least one segment.")


def generate(rng, tier):
    out = []
    n = 1500 if tier == "thorough" else 220
    for i in range(n):
        blk, durs = traj_block(rng, allow_zero=(i % 5 == 0))   # zero-duration segments: their own instants are not probed
        ts = probe_times(rng, durs)
        mode = "bo"[i % 2]
        # fresh player per query = one case per time (history of length one)
        for t in ts:
            out.append((f"traj {mode} {hx(blk)} p{t}", len(durs) > 0))
        out.append((f"traj {mode} {hx(blk)} D E d S s e", len(durs) > 0))
        # the player-level duration is the sum of ALL segments wherever the player is parked
        if durs:
            t1, t2 = rng.choice(ts), rng.choice(ts)
            out.append((f"traj {mode} {hx(blk)} p{t1} d v{t2} d a{t1} d D", True))
    # a raw block longer than 65535 bytes (the buffer interface takes a size_t length; a .skyb block cannot be that long):
    # segment offsets beyond 65535 are offsets like any other
    from vlib.gen_traj import i16, u16, f2b
    nseg = 14000                                                           # 5 bytes each: 70009 bytes, offset 65536 is segment 13105
    big = bytearray([1]) + i16(0) + i16(0) + i16(0) + i16(0)
    for k in range(nseg):
        big += bytes([0x01]) + u16(7) + i16((k * 3 + 3) % 30000)          # x linear, 7 ms each
    assert len(big) > 65536 + 1000
    total = nseg * 7
    qs = [f"p{f2b(t)}" for t in (1.0, 91.0, 91.73, 91.7385, 91.75, 92.5, total / 1000.0 - 0.0035, total / 1000.0 + 1.0)]
    out.append((f"traj b {hx(bytes(big))} " + " ".join(qs) + " d", True))
    out.append((f"traj o {hx(bytes(big))} D E S e", True))
    # many short segments whose durations are no binary fractions of a second: the total in seconds is the sum of the
    # millisecond durations (a sum of per-segment float seconds drifts by hundreds of units in the last place)
    for nseg, dur, lead in ((6000, 1, None), (2000, 33, None), (3000, 1, 65535), (4000, 7, 999)):
        blk = bytearray([1]) + i16(0) + i16(0) + i16(0) + i16(0)
        if lead is not None:
            blk += bytes([0x00]) + u16(lead)
        for k in range(nseg):
            blk += (bytes([0x00]) + u16(dur)) if k % 3 else (bytes([0x01]) + u16(dur) + i16(k % 1000))
        out.append((f"traj b {hx(bytes(blk))} D E S d e", True))
    # all degree combinations on a two-segment trajectory
    for dx in range(4):
        for dy in range(4):
            for dz in range(4):
                dw = (dx + dy + dz) % 4
                blk, durs = traj_block(rng, nseg=2, degs=(dx, dy, dz, dw), scale=rng.choice([1, 10, 127]))
                ts = probe_times(rng, durs, 1)
                out.append((f"traj b {hx(blk)} " + " ".join(f"p{t}" for t in ts[:3]), True))
                for t in ts[3:]:
                    out.append((f"traj b {hx(blk)} p{t}", True))
    return out
