"""C15 — Bounding box contains the whole trajectory and is tight."""
from vlib.gen_stats import build, skyb, flight, axis_points
from vlib.skyb import hx

PID = "C15"
LEAN_MODULE = "Sb.Properties.C15"
THEOREMS = ["Sb.C15.mergeAll_contains", "Sb.C15.mergeAll_attained", "Sb.C15.mergeAll_some", "Sb.C15.extremaLinear_bounds", "Sb.C15.extremaLinear_attained", "Sb.C15.bounded_above_by_candidates", "Sb.C15.bounded_below_by_candidates",
            "Sb.Corr.Cert.pos_sound", "Sb.Corr.Cert.root_sound", "Sb.Corr.Cert.segs_cover", "Sb.Corr.Cert.segs_roots", "Sb.Corr.Cert.partition_complete", "Sb.Corr.Cert.partition_sound", "Sb.Corr.Cert.reachesCert_true", "Sb.Corr.Cert.reachesCert_false", "Sb.Corr.Cert.hasRootCert_true", "Sb.Corr.Cert.hasRootCert_false", "Sb.Corr.Cert.rootsCert_complete", "Sb.Corr.Cert.rootsCert_sound", "Sb.Corr.Cert.sqrt2Segs_ok"]
RULE = ("trajectory files (version 1/2, with/without checksum) with 0..8 segments whose x, y, z encodings are constant, linear or cubic in "
        "every combination, scales {1, 2, 10, 127}, coordinates small, seeded and at the int16 extremes, cubic shapes with interior extrema "
        "(overshoot, S-curves, zero end velocities); each loaded through a descriptor and from memory (answers must be bitwise equal); "
        "cubic encodings of lower-degree curves (degree-elevated quadratics, symmetric and collinear control points: exact cubic coefficient 0); "
        "histories of 2..8 same-length trajectories loaded one after the other from one caller buffer overwritten in place and through a descriptor; "
        "a separate stream with degree-7 encodings (recorded finding). Non-trivial: at least one segment.")
ASSUMPTIONS = ["containment / tightness are decided exactly (certified root oracle, Sb/Proofs/CertSound.lean) against the exact Bezier polynomials, up to the float tolerance 64*2^-24*sum|coefficients| per segment"]


def finding_signature(case, detail):
    return "degree7-bbox" if "[degree7-bbox]" in detail else None


def generate(rng, tier):
    out = []
    n = 1500 if tier == "thorough" else 260
    for i in range(n):
        scale = rng.choice([1, 1, 2, 10, 127])
        big = rng.random() < 0.25
        rngv = (-32768, 32767) if big else (-3000, 3000)
        start = tuple(rng.randint(*rngv) for _ in range(3)) + (0,)
        nseg = rng.choice([1, 1, 2, 3, 5, 8])
        x, y, z, _ = start
        segs = []
        for _ in range(nseg):
            xs, x = axis_points(rng, x, rng.choice([0, 1, 2, 2]), *rngv)
            ys, y = axis_points(rng, y, rng.choice([0, 1, 2, 2]), *rngv)
            zs, z = axis_points(rng, z, rng.choice([0, 1, 2, 2]), *rngv)
            segs.append((rng.choice([1, 1000, 5000, 65535, 0] if i % 4 == 0 else [1, 1000, 5000, 65535]), xs, ys, zs, []))
        blk = build(scale, start, segs, use_yaw=rng.random() < 0.3)
        out.append((f"stats {hx(skyb(blk, rng))} B", True))
    # interior extrema on purpose: out-and-back and overshoot cubics on each axis
    for scale in (1, 10, 127):
        for a, b, c in [(1000, 1000, 0), (-500, 2000, 100), (3000, -3000, 0), (0, 0, 1000), (1000, 0, 0), (200, 100, 300), (257, 255, 256)]:
            for ax in range(3):
                pts = [[], [], []]
                pts[ax] = [a, b, c]
                blk = build(scale, (0, 0, 0, 0), [(2000, pts[0], pts[1], pts[2], [])])
                out.append((f"stats {hx(skyb(blk))} B", True))
    # gently curved segments far from the origin (offset or travel some 10^4 times the curvature) and long almost-straight
    # dashes: the curvature is small against the largest coefficient but it is not rounding noise - the interior extremum
    # and the end points are what they are
    for i in range(120 if tier == "thorough" else 30):
        scale = rng.choice([1, 1, 3, 10])
        base = rng.choice([30000, -30000, 20000, 12000, -15000])
        kind = i % 3
        if kind == 0:       # bulge of 1..3 units
            d = rng.choice([1, 2, 3])
            pts = [base + d, base + d, base]
            st = base
        elif kind == 1:     # final segment creeping a few units further than its start
            pts = [base, base + rng.choice([1, 2]), base + rng.choice([3, 4])]
            st = base
        else:               # long dash with a slight deceleration
            st = 0
            step = rng.choice([10000, 8000])
            pts = [step, 2 * step - rng.choice([1, 2]), 3 * step - rng.choice([3, 5])]
        for ax in range(3):
            start = [rng.randint(-50, 50), rng.randint(-50, 50), rng.randint(0, 50), 0]
            start[ax] = st
            axes = [[], [], []]
            axes[ax] = pts
            other = (ax + 1) % 3
            axes[other] = [start[other] + 100]
            blk = build(scale, tuple(start), [(rng.choice([2000, 5000]), axes[0], axes[1], axes[2], [])])
            out.append((f"stats {hx(skyb(blk, rng))} B", True))
    # histories: several trajectories of the same encoded length, loaded one after the other from ONE caller buffer that is
    # overwritten in place and through a descriptor after the previous one was destroyed; every box must be that of its own bytes
    for i in range(60 if tier == "thorough" else 12):
        nseg = rng.choice([1, 2, 3])
        shape = [tuple(rng.choice([0, 1, 2]) for _ in range(3)) for _ in range(nseg)]
        files = []
        for _ in range(rng.choice([2, 3, 4, 8])):
            scale = rng.choice([1, 2, 10])
            start = tuple(rng.randint(-3000, 3000) for _ in range(3)) + (0,)
            x, y, z, _ = start
            segs = []
            for (ex, ey, ez) in shape:
                xs, x = axis_points(rng, x, ex, -3000, 3000)
                ys, y = axis_points(rng, y, ey, -3000, 3000)
                zs, z = axis_points(rng, z, ez, -3000, 3000)
                segs.append((rng.choice([1000, 5000]), xs, ys, zs, []))
            files.append(hx(skyb(build(scale, start, segs))))
        if len(set(len(f) for f in files)) == 1:
            out.append(("statsseq " + " ".join(files), True))
    # cubic encodings of lower-degree curves (degree-elevated quadratics, symmetric control points, equally spaced collinear
    # points): the exact cubic coefficient is 0, the float one is rounding noise
    for i in range(240 if tier == "thorough" else 60):
        scale = rng.choice([1, 2, 10, 127])
        kind = i % 3
        if kind == 0:
            q0, q1, q2 = (3 * rng.randint(-900, 900) for _ in range(3))
            ctrl = [q0, (q0 + 2 * q1) // 3, (2 * q1 + q2) // 3, q2]
        elif kind == 1:
            a, b = rng.randint(-2500, 2500), rng.randint(-2500, 2500)
            ctrl = [a, b, b, a]
        else:
            a, d = rng.randint(-2000, 2000), rng.randint(-300, 300)
            ctrl = [a, a + d, a + 2 * d, a + 3 * d]
        ax = rng.randrange(3)
        start = [rng.randint(-500, 500) for _ in range(3)]
        start[ax] = ctrl[0]
        pts = [[], [], []]
        pts[ax] = ctrl[1:]
        blk = build(scale, tuple(start) + (0,), [(rng.choice([1000, 5000, 20000]), pts[0], pts[1], pts[2], [])])
        out.append((f"stats {hx(skyb(blk))} B", True))
    # no segments at all / scale 0
    out.append((f"stats {hx(skyb(build(1, (5, 6, 7, 0), [])))} B", False))
    out.append((f"stats {hx(skyb(build(0, (5, 6, 7, 0), [(1000, [1], [2], [3], [])])))} B", False))
    # degree-7 encodings: the recorded finding
    for ax in range(3):
        pts = [[10], [20], [30]]
        pts[ax] = [0, 4000, -4000, 4000, -4000, 4000, 0]
        blk = build(10, (0, 0, 0, 0), [(3000, pts[0], pts[1], pts[2], [])])
        out.append((f"stats {hx(skyb(blk))} B", True))
    return out
