"""C11 — RTH plan evaluation returns the entry in force at the given time."""
from vlib.gen_rth import plan, eval_times, varint, u16, i16, f2b
from vlib.skyb import hx

PID = "C11"
LEAN_MODULE = "Sb.Properties.C11"
THEOREMS = [
    "Sb.C11.constants", "Sb.C11.actions_match_format", "Sb.C11.action_predicates", "Sb.C11.scanEntry_time_indep", "Sb.C11.scanLoop_eq_pickFirst", "Sb.C11.negative_time_lands",
    "Sb.C11.no_entries_lands", "Sb.C11.action_resolved", "Sb.C11.evaluateAt_action", "Sb.C11.cumulative_overflow_is_error",
    "Sb.C11.duration_overflow_is_error", "Sb.C11.parseCoord_scaled", "Sb.C11.point_scaled",
]
RULE = ("plans with scale 1..127, 0..20 points, 0..30 entries, every action code x flag combination (incl. unused flag bits), runs of "
        "'same as previous' (also as first entry), 1..5-byte variable-length times/durations/delays incl. padded encodings, durations at "
        "2^24 and 2^24+1, cumulative times near 2^32, point indices in and out of range; evaluation at {-inf,<0,-0,0,every cumulative "
        "time and ±0.5/±1/±0.001/±0.0005 and its two binary32 neighbours, +inf, NaN, 1e12}; every point index; meta data; the empty plan of "
        "sb_rth_plan_init_empty made on an object that is not zero-filled. Plus structurally damaged plans. Non-trivial: >= 1 entry.")


def generate(rng, tier):
    out = []
    n = 3000 if tier == "thorough" else 500
    for i in range(n):
        blk, times, npts = plan(rng, well_formed=(i % 6 != 0))
        if i % 9 == 0 and len(blk) > 4:
            blk = blk[:rng.randint(0, len(blk))]
        qs = ["m"] + [f"p{j}" for j in range(min(npts + 2, 24))]
        out.append((f"rth {hx(blk)} " + " ".join(qs), len(times) > 0))
        for t in eval_times(rng, times):
            out.append((f"rth {hx(blk)} e{t}", len(times) > 0))
    # variable-length integers whose value does not fit 32 bits (a fifth byte of 0x10 or more): time difference, duration,
    # pre-delay or post-delay of an entry; the scan must report the overflow when it reaches that entry (never a value
    # reduced modulo 2^32), and the entries before it are still answered
    for fifth in (0x10, 0x1f, 0x20, 0x2f, 0x40, 0x4f, 0x60, 0x6f, 0x70, 0x7f):
        big = bytes([0xe4, 0x80, 0x80, 0x80, fifth])
        head = bytes([1]) + u16(1) + i16(100) + i16(-200)
        for where in ("time", "duration", "pre", "post"):
            e1 = bytes([0x20]) + varint(10) + varint(0) + varint(5)                                 # go to point 0 at T=10, 5 s
            if where == "time":
                e2 = bytes([0x10]) + big
            elif where == "duration":
                e2 = bytes([0x20]) + varint(20) + varint(0) + big
            elif where == "pre":
                e2 = bytes([0x22]) + varint(20) + varint(0) + varint(7) + big
            else:
                e2 = bytes([0x21]) + varint(20) + varint(0) + varint(7) + big
            e3 = bytes([0x10]) + varint(30)
            blk = head + u16(3) + e1 + e2 + e3
            out.append((f"rth {hx(blk)} m " + " ".join(f"e{f2b(float(t))}" for t in (0, 10, 11, 30, 31, 100, 1e6)), True))
    # the empty plan made by sb_rth_plan_init_empty (on an object that is not zero-filled)
    out.append(("rth - m p0 " + " ".join(f"e{t}" for t in eval_times(rng, [0, 1, 15, 1000])), True))
    # entry counts with bit 15 set (the count is an unsigned 16-bit field): long runs of 'same as previous'
    # (the list-based model is quadratic in the plan size: few queries per plan)
    for nent, goto in ([(32768, False)] if tier != "thorough" else [(32767, True), (32768, False), (40000, True), (65535, True), (65535, False)]):
        blk = bytearray([rng.choice([1, 2, 10])]) + u16(2) + i16(-30) + i16(40) + i16(7) + i16(-9) + u16(nent)
        T = 0
        cum = []
        for k in range(nent):
            d = 1 if k % 1000 else rng.randint(1, 3)
            T += d
            cum.append(T)
            if k == 0:
                blk += bytes([0x20 if goto else 0x10]) + varint(d) + (varint(1) + varint(5) if goto else b"")
            else:
                blk += bytes([0x00]) + varint(d) + (varint(k % 100 + 1) if goto else b"")
        qs = ["m", "p1", "p2"] + [f"e{f2b(float(x))}" for x in (0.5, cum[32700] + 0.5, cum[-1], cum[-1] + 1000.0)]
        out.append((f"rth {hx(bytes(blk))} " + " ".join(qs), True))
    for blk in [b"", b"\x01", b"\x01\x00", b"\x01\x00\x00", b"\x01\x01\x00", b"\x01\x00\x00\x01\x00", b"\x01\x00\x00\x01\x00\x20"]:
        out.append((f"rth {hx(blk)} m p0 e0 e1065353216", False))
    return out
