"""C17 — Everything allocated is released once, also on failure paths."""
import itertools
from vlib import corpus
from vlib.skyb import make_file, hx, rand_bytes
from vlib.gen_traj import traj_block, yaw_block
from vlib.gen_lights import program
from vlib.gen_rth import plan

PID = "C17"
LEAN_MODULE = "Sb.Properties.C17"
THEOREMS = ["Sb.C17.run_inv", "Sb.C17.runAll_inv", "Sb.C17.all_destroyed_empty", "Sb.C17.failed_load_allocates_nothing",
            "Sb.C17.view_load_allocates_nothing", "Sb.C17.convertL_inv", "Sb.C17.opBuf_inv", "Sb.C17.opBld_inv", "Sb.C17.attempt_live"]
HARNESS_VARIANT = "wrap"
HARNESS_LINK = ("-Wl,--wrap=malloc,--wrap=calloc,--wrap=realloc,--wrap=free",)
RULE = ("scenarios = sequences of create/load (descriptor, memory, owned bytes, empty), query, clear, grow, finish and destroy calls over "
        "byte buffers, trajectories, builders, light programs (+players), yaw controls, RTH plans, RTH entry conversion and the "
        "polynomial solver; valid and malformed inputs; every scenario is run without failure and with the k-th C allocation failing "
        "for every k up to the number of allocations it performs (+1). Observed per call: return code, number of live library blocks, "
        "allocation attempts; at the end: live blocks, frees/reallocs of memory the library does not own, injected failures fired; all "
        "under ASan (double free / use after free). Non-trivial: a scenario in which the injected failure fires.")
ASSUMPTIONS = ["operator new/delete of the light player are not visible to the C allocation ledger", "the allocator itself is trusted"]


def scenarios(rng, tier):
    thorough = tier == "thorough"
    sc = []
    # buffers
    for init in (0, 1, 8):
        for seq in itertools.product(["Ba5", "Ba40", "Bz3", "Bz20", "Br100", "Br2", "Bp", "Bc"], repeat=3 if thorough else 2):
            sc.append([f"Bi{init}"] + list(seq) + ["Bd"])
    # a caller-allocated block handed over to the buffer (sb_buffer_init_from_bytes); size 0 is refused
    for init in (0, 1, 8):
        for seq in itertools.product(["Ba5", "Ba40", "Bz3", "Br100", "Br2", "Bp", "Bc"], repeat=2):
            sc.append([f"Bo{init}"] + list(seq) + ["Bd"])
    # views over caller memory: never grown, shrunk, pruned into an allocation or freed
    for init in (0, 1, 4, 8):
        for seq in itertools.product(["Ba0", "Ba3", "Ba40", "Bz0", "Bz3", "Br100", "Br2", "Bp", "Bc"], repeat=2):
            sc.append([f"Bv{init}"] + list(seq) + ["Bd"])
    # files
    tb, _ = traj_block(rng, nseg=3, scale=10)
    yb, _ = yaw_block(rng, n=3)
    lp = program(rng)
    rp, _, _ = plan(rng, well_formed=True)
    good = make_file([(1, tb), (2, lp), (5, yb), (4, rp)], 2, True)
    empty_blocks = make_file([(1, b""), (2, b""), (5, b""), (4, b"")], 1)
    short = make_file([(1, tb[:5]), (2, lp[:2]), (5, yb[:2]), (4, rp[:2])], 1)
    cut = good[:-3]
    nothing = make_file([(3, b"hello")], 1)
    garbage = b"not a skyb file"
    files = [good, empty_blocks, short, cut, nothing, garbage]
    # a file that ends inside the body of the very block being loaded (descriptor route: the block-sized buffer has been
    # allocated when the short read is noticed), for each kind: nothing of the body, one byte of it, all but one byte
    for typ, blk in ((1, tb), (2, lp), (5, yb), (4, rp)):
        whole = make_file([(3, b"xy"), (typ, blk)], 1)
        for keep in (0, 1, len(blk) - 1):
            files.append(whole[:len(whole) - len(blk) + keep])
    for f in files:
        h = hx(f)
        for k in "TLYR":
            for route in "fm":
                extra = (["Pi", "Pd"] if k == "L" else [])
                sc.append([f"{k}{route}{h}", f"{k}q", f"{k}c"] + extra + [f"{k}d"])
                sc.append([f"{k}{route}{h}", f"{k}d", f"{k}{'m' if route == 'f' else 'f'}{h}", f"{k}d"])
        sc.append([f"Tf{h}", f"Lm{h}", f"Yf{h}", f"Rm{h}", "Td", "Ld", "Yd", "Rd"])
    for k in "TLY":
        sc.append([f"{k}e", f"{k}c", f"{k}d"])
    sc.append(["Re", "Rq", "Rd"])
    sc.append([f"To{hx(tb)}", "Tq", "Tc", "Td"])
    sc.append([f"To{hx(tb[:4])}", "Td"])
    sc.append(["To-", "Td"])
    # builder
    for seq in itertools.product(["Ua1000", "Ua70000", "Ua0", "Uh59999", "Uh130000", "Uf"], repeat=3 if thorough else 2):
        sc.append(["Ui1"] + list(seq) + ["Ud", "Td"])
    sc.append(["Ui0", "Ud"])
    sc.append(["Ui200", "Ud"])
    sc.append(["Ui5", "Ua1000", "Uf", "Td", "Ua2000", "Uh1", "Uf", "Ud", "Td"])
    # RTH conversion: action,time,dur,pre,post,neck,neckdur
    for c in ["C3,5,10,1,2,500,3", "C2,5,70,0,0,0,0", "C1,0,0,0,130,0,0", "C2,5,-1,1,2,0,0", "C3,5,10,1,2,500,-3", "C7,5,10,1,2,0,0",
              "C3,-5,0,0,0,-500,0", "C2,5,10,1,-2,0,0", "C3,5,4294968,0,0,0,0", "C2,4294968,1,0,0,0,0",
              # every duration of the entry in turn is too long for 32-bit milliseconds (conversion fails at that phase)
              "C3,5,10,4294968,0,0,0", "C3,5,10,0,4294968,0,0", "C3,5,10,1,2,500,4294968", "C1,5,0,0,4294968,0,0",
              "C1,5,0,4294968,0,0,0", "C2,5,10,1,5000000,0,0", "C3,5,10,1,-1,500,3", "C3,5,10,-1,1,500,3", "C3,5,10,1,1,500,-3"]:
        sc.append([c, "Td"])
    # solver
    for n in (0, 1, 2, 3, 4, 5, 6, 8):
        sc.append([f"S{n}"])
        sc.append([f"S{n}", f"S{n}", "S3"])
    return sc


def generate(rng, tier):
    out = []
    for sc in scenarios(rng, tier):
        body = " ".join(sc)
        # number of allocations is at most a few dozen; run k = 0 .. 12 (thorough: 40); the model says which fire
        kmax = 40 if tier == "thorough" else 12
        for k in range(0, kmax + 1):
            out.append((f"alloc {k} {body}", k > 0))
    return out
