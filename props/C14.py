"""C14 — Proposed landing time leaves exactly the preferred descent."""
import math
from vlib.gen_stats import build, skyb, z_points, axis_points, well_conditioned_cubic, fb
from vlib.gen_traj import f2b, b2f, PINF, NINF, next_up, next_down
from vlib.skyb import hx

PID = "C14"
LEAN_MODULE = "Sb.Properties.C14"
THEOREMS = ["Sb.C14.trackRun_eq_verticalSuffix", "Sb.C14.verticalSuffix_all_vertical", "Sb.C14.verticalSuffix_is_suffix", "Sb.C14.verticalSuffix_maximal", "Sb.C14.propose_screening", "Sb.C14.landing_no_run", "Sb.C14.landing_short_run", "Sb.C14.walkRun_spec", "Sb.C14.walkRun_in_segment",
            "Sb.Corr.Cert.pos_sound", "Sb.Corr.Cert.root_sound", "Sb.Corr.Cert.segs_cover", "Sb.Corr.Cert.segs_roots", "Sb.Corr.Cert.partition_complete", "Sb.Corr.Cert.partition_sound", "Sb.Corr.Cert.reachesCert_true", "Sb.Corr.Cert.reachesCert_false", "Sb.Corr.Cert.hasRootCert_true", "Sb.Corr.Cert.hasRootCert_false", "Sb.Corr.Cert.rootsCert_complete", "Sb.Corr.Cert.rootsCert_sound", "Sb.Corr.Cert.sqrt2Segs_ok"]
RULE = ("trajectory files: 0..4 segments of arbitrary flight (any encoding incl. degree 7 on x/y, ending with a non-vertical or ascending "
        "segment or not) followed by a run of 0..6 vertical descending segments whose altitude is constant (hover), linear or a monotone "
        "well-conditioned cubic, with horizontal jitter of 0, exactly the threshold, and one unit on both sides of it; scales {1,10,127}; "
        "thresholds {0, -1, the jitter exactly and its float neighbours, large, +-inf, NaN}; preferred descents {0, negative, 1e-40, FLT_MIN and "
        "its neighbour, tiny, exactly the run's descent and its neighbours, fractions of it, more than it, +-inf, NaN}. Proposal function and "
        "one-pass interface, both loading routes. Non-trivial: at least one segment.")
ASSUMPTIONS = ["the instant inside the run is judged through the altitude it yields (exact Bezier polynomials), float rounding for linear altitude, "
               "residTol=1/500 of the coefficient magnitude for cubic altitude"]

NANB = 0x7FC00000
FLT_MIN_B = 0x00800000


def monotone_cubic_down(rng, z, drop):
    for _ in range(200):
        a = rng.randint(0, drop)
        b = rng.randint(a, drop)
        r = rng.random()
        if r < 0.25:
            a = 0                 # ease-in: zero vertical speed at the start
        elif r < 0.5:
            b = drop              # ease-out: zero vertical speed at the end
        elif r < 0.6:
            a, b = 0, drop        # both
        p = [z - a, z - b, z - drop]
        if well_conditioned_cubic(z, p):
            return p
    return None


def generate(rng, tier):
    out = []
    n = 700 if tier == "thorough" else 130
    for i in range(n):
        scale = rng.choice([1, 10, 10, 127])
        start = (rng.randint(-100, 100), rng.randint(-100, 100), rng.randint(0, 50), 0)
        x, y, z = start[0], start[1], start[2]
        segs = []
        npre = rng.choice([0, 1, 2, 4])
        for k in range(npre):
            xs, x = axis_points(rng, x, rng.choice([0, 1, 2, 3] if rng.random() < 0.2 else [1, 2]))
            ys, y = axis_points(rng, y, rng.choice([0, 1, 2]))
            zs, z = z_points(rng, z, rng.choice([0, 1, 2]), max(z - 500, -2000), z + 1500)
            segs.append((rng.choice([1, 500, 1000, 3000, 10000, 65535]), xs, ys, zs, []))
        if npre and rng.random() < 0.5:
            # make the last flight segment clearly non-vertical so that the run starts where we think
            d, xs, ys, zs, ws = segs[-1]
            x = x + 500
            segs[-1] = (d, [x] if len(xs) <= 1 else xs[:-1] + [x], ys, zs, ws)
            if len(xs) == 0:
                pass
        nrun = rng.choice([0, 1, 1, 2, 3, 6])
        jit = rng.choice([0, 1, 3])          # horizontal jitter in units
        thr_exact = float(jit * scale)
        total_drop = 0
        run_start_z = z
        for k in range(nrun):
            r = rng.random()
            j = rng.choice([0, jit, -jit])
            xs = [] if j == 0 else [x + j]
            x += j
            j2 = rng.choice([0, jit])
            ys = [] if j2 == 0 else [y + j2]
            y += j2
            if r < 0.2:
                zs = []
            elif r < 0.6:
                drop = rng.choice([1, 10, 100, 400])
                zs = [z - drop]
                z -= drop
                total_drop += drop
            else:
                drop = rng.choice([30, 100, 400, 1000])
                p = monotone_cubic_down(rng, z, drop)
                if p is None:
                    zs = [z - drop]
                else:
                    zs = p
                z -= drop
                total_drop += drop
            segs.append((rng.choice([1, 500, 1000, 3000, 10000]), xs, ys, zs, []))
        if z < -32000:
            continue
        blk = build(scale, start, segs)
        D = float(total_drop * scale)
        pds = [0.0, -1.0, 1e-40, b2f(FLT_MIN_B), b2f(FLT_MIN_B + 1), 1e-3, D, b2f(next_up(f2b(D))) if D > 0 else 1.0,
               b2f(next_down(f2b(D))) if D > 0 else 2.0, D * 0.5, D * 0.25, D * 0.9, D + 1.0, D * 2 + 5, 2500.0, math.inf, -math.inf]
        thrs = [thr_exact, thr_exact, thr_exact, b2f(next_down(f2b(thr_exact))) if thr_exact > 0 else 0.0, b2f(next_up(f2b(thr_exact))),
                float((jit + 1) * scale), max(0.0, float((jit - 1) * scale)), 0.0, -1.0, 1e9, 50.0]
        qs = []
        for pd in rng.sample(pds, 7):
            qs.append(f"L{fb(pd)},{fb(rng.choice(thrs))}")
        # a preferred descent of exactly 0 (+0.0 and -0.0) with a valid threshold: both interfaces give the total duration
        qs.append(f"L{fb(0.0)},{fb(thr_exact)}")
        qs.append(f"L{0x80000000},{fb(50.0)}")
        qs.append(f"L{NANB},{fb(thr_exact)}")
        qs.append(f"L{fb(D * 0.5 + 1)},{rng.choice([NANB, PINF, NINF])}")
        out.append((f"stats {hx(skyb(blk, rng))} " + " ".join(qs), len(segs) > 0))
    # the boundary 'the run descends by exactly the preferred descent' (answer: the start of the run), with the run beginning in a
    # hover or a level segment, which a walk along the run must not skip over
    for i in range(80 if tier == "thorough" else 20):
        scale = rng.choice([1, 10])
        z = rng.choice([3000, 5000, 800])
        segs = [(rng.choice([2000, 5000]), [500], [], [z], [])]           # a flight leg: clearly not vertical
        start = (0, 0, 0, 0)
        nh = rng.choice([1, 2, 3])
        for _ in range(nh):
            segs.append((rng.choice([1000, 3000]), [], [], [], []))       # hover: part of the vertical run
        drops = [rng.choice([100, 400, 1000]) for _ in range(rng.choice([1, 2]))]
        zz = z
        for d in drops:
            zz -= d
            segs.append((rng.choice([2000, 4000]), [], [], [zz], []))
        blk = build(scale, start, segs)
        D = float(sum(drops) * scale)
        qs = [f"L{fb(pd)},{fb(thr)}" for pd in (D, b2f(next_up(f2b(D))), b2f(next_down(f2b(D))), D / 2, D + 1.0) for thr in (0.0, 5.0)]
        out.append((f"stats {hx(skyb(blk, rng))} " + " ".join(qs), True))
    # a preferred descent that puts the landing instant a hair above the END of a cubic segment that is still descending
    # there (0.25 .. 2.5 units above its end altitude): the closed-form solver may lose that crossing to rounding, the
    # answer must still be next to the end of that segment
    for i in range(60 if tier == "thorough" else 12):
        scale = rng.choice([1, 1, 10])
        top = rng.choice([10000, 6000, 12000])
        end = rng.choice([2000, 1500, 0, 500])
        mid = top - rng.choice([0, 300, 500])
        cub = [top, mid, end]                      # control points top, top, mid, end: level start, steep end
        segs = [(4000, [300], [], [top], []), (rng.choice([10000, 8000]), [], [], cub, [])]
        tail = rng.choice(["none", "level", "line"])
        extra = 0
        if tail == "level":
            segs.append((3000, [], [], [end], []))
        elif tail == "line" and end >= 500:
            extra = rng.choice([200, 500])
            segs.append((2000, [], [], [end - extra], []))
        blk = build(scale, (0, 0, 0, 0), segs)
        qs = []
        for eps in (0.25, 0.75, 2.0, 2.5):
            qs.append(f"L{fb(b2f(f2b((extra + eps) * scale)))},{fb(0.0)}")
        qs.append(f"L{fb(float((extra + 40) * scale))},{fb(1.0)}")
        out.append((f"stats {hx(skyb(blk, rng))} " + " ".join(qs), True))
    # eased descents (zero vertical speed at both ends: control points top, top, bottom, bottom): a landing instant within the
    # first or last percent of the segment, where two solutions of the altitude equation lie close together
    for i in range(50 if tier == "thorough" else 10):
        scale = rng.choice([1, 10])
        top = rng.choice([10000, 8000, 3000])
        bottom = rng.choice([0, 500])
        dur = rng.choice([20000, 10000, 6000])
        segs = [(4000, [300], [], [top], []), (dur, [], [], [top, bottom, bottom], [])]
        if rng.random() < 0.4:
            segs.append((2000, [], [], [], []))      # a hover behind it belongs to the run
        blk = build(scale, (0, 0, 0, 0), segs)
        D = (top - bottom) * scale
        qs = []
        for frac in (0.0004, 0.001, 0.003, 0.01, 0.5):
            qs.append(f"L{fb(b2f(f2b(D * frac)))},{fb(0.0)}")
            qs.append(f"L{fb(b2f(f2b(D * (1 - frac))))},{fb(0.0)}")
        out.append((f"stats {hx(skyb(blk, rng))} " + " ".join(qs), True))
    out.append((f"stats {hx(skyb(build(1, (0, 0, 5, 0), [])))} L{fb(2.5)},{fb(0.05)} L{fb(0.0)},{fb(0.05)}", False))
    return out
