#!/usr/bin/env python3
"""Markdown table of the seeded changes kept under /verif/seeded and which checks caught them."""
import json, os
V = os.path.dirname(os.path.dirname(os.path.abspath(__file__)))
rows = []
for d in sorted(os.listdir(os.path.join(V, "seeded"))):
    try:
        m = json.load(open(os.path.join(V, "seeded", d, "meta.json")))
    except Exception:
        continue
    v = m.get("verification", {})
    summ = (m.get("summary") or "").replace("|", "/").replace("\n", " ")
    if len(summ) > 170:
        summ = summ[:167] + "..."
    ran = ", ".join(f"{c}:{'caught' if x['exit'] != 0 and x['violations'] else 'missed'}" for c, x in v.get("checks", {}).items())
    rows.append(f"| {d} | {summ} | {'yes' if v.get('tests_pass') else 'NO'} | {ran} | {m.get('strengthened', '') or m.get('not_caught_reason', '')} |")
print("| seed | change | suite passes | checks run | note |")
print("|---|---|---|---|---|")
print("\n".join(rows))

import sys
if "--update-design" in sys.argv:
    import io, contextlib
    p = os.path.join(V, "DESIGN.md")
    s = open(p).read()
    a, b = s.index("<!-- seedtable:begin -->"), s.index("<!-- seedtable:end -->")
    table = "| seed | change | suite passes | checks run | note |\n|---|---|---|---|---|\n" + "\n".join(rows) + "\n"
    open(p, "w").write(s[:a] + "<!-- seedtable:begin -->\n" + table + s[b:])
