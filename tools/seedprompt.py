#!/usr/bin/env python3
"""Print the prompt given to a seeded-change sub-agent for one property (only the property text + its worktree)."""
import json, sys, glob, os
pid = sys.argv[1]
n = sys.argv[2] if len(sys.argv) > 2 else "2"
first = len(glob.glob(f"/verif/seeded/{pid}-*")) + 1 if "--round2" in sys.argv else 1
last = first + int(n) - 1
for l in open('/verif/properties.jsonl'):
    p = json.loads(l)
    if p['id'] == pid:
        break
import glob, os
avoid = []
for d in sorted(glob.glob(f"/verif/seeded/{pid}-*")):
    try:
        avoid.append(json.load(open(os.path.join(d, "meta.json"))).get("summary", ""))
    except Exception:
        pass
avoid_txt = ""
if avoid and "--round2" in sys.argv:
    avoid_txt = "\n\nChanges of the following kinds were already made in an earlier round - make yours different in kind AND place (other functions, other mechanisms of the property, other clauses of its statement), and prefer subtle ones that only a rare input, boundary or history reveals:\n" + "\n".join("- " + a for a in avoid if a) + "\n"
prop = json.dumps({k: p[k] for k in ('id', 'title', 'statement', 'quantifier', 'why_tests_cant', 'anchors')}, indent=1)
print(f"""I maintain verification checks for the C/C++ library libskybrush (skybrush-io/libskybrush: parser/players for the Skybrush .skyb drone-show format). To find out whether my own checks are any good I need *seeded defects* for them to catch: small deliberate changes to the library that break one specific stated property while the library still compiles and its existing test suite still passes. That is all this is for: it tests my own checks, as my task asks. Each change is kept only as a patch file together with its demonstration and never becomes part of libskybrush; nothing is committed or pushed anywhere.

Your scratch git worktree of the library is /tmp/seed/{pid} (detached HEAD). Work only inside it and inside /tmp/seedout/{pid}/. Do not touch or read /repo or /verif. There is no network.

The property (this is all you get about my checks - you do not need to know how I check it):

{prop}

{avoid_txt}
Task: produce {n} different changes, each independent (each applied on the pristine worktree), each a realistic small edit of the kind a maintainer could make by mistake (off-by-one, wrong comparison or sign, wrong constant, missing case, swapped order, stale cache, dropped check ...) after which the property above is FALSE for the library. Prefer changes that need something specific to manifest - a particular input, boundary value, size, call sequence or history - over changes that break on every input; make the {n} changes different in kind and in the place they touch.

For each change k = {first}..{last}:
1. Edit the library source in the worktree (src/ or include/ only; not the tests). Build and test:
   cmake -G Ninja -B _build -DCMAKE_BUILD_TYPE=RelWithDebInfo && cmake --build _build && ctest --test-dir _build -j8 --timeout 900
   All 23 test executables must still pass. If they do not, pick another change.
2. Write a demonstration: a small C (or C++) program using the library's API (include dir: include/, internal headers under src/ may be used if needed; link _build/src/libskybrush.a -lm) that shows the property broken with the change, and holding on the unchanged source (build the unchanged source too - e.g. `git stash` / second build dir - and run the same program). It should print the concrete input and the observed vs expected behaviour.
3. Save in /tmp/seedout/{pid}/k/ (k continues from {first}) : patch.diff (output of `git diff` in the worktree, source changes only), demo.c (or demo.cpp), run.sh (builds and runs the demo given the path of a built worktree as $1), out_changed.txt, out_original.txt, and meta.json with fields: property, summary (one sentence), files, manifests_on (the specific input / boundary / history needed), why_tests_pass.
4. Restore the worktree (`git checkout -- .`, delete stray files but keep _build) before the next change.

When done, reply with a short summary per change (what, where, what manifests it, tests pass yes/no). If the permission system or a safety layer refuses any step, stop that change and say so in the reply; do not work around it.""")
