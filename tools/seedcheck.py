#!/usr/bin/env python3
"""Confirm a seeded change produced by a sub-agent and run the registered checks against it.

usage: seedcheck.py <PID> <K> [--checks C04,C06] [--tier quick]

1. fresh scratch worktree of /repo (under /tmp), apply patch, build, run the repository's test suite,
   run the demonstration on the changed and on the pristine build;
2. apply the patch to /repo, run ./check for the property (and any extra checks), undo it straight afterwards;
3. store everything under /verif/seeded/<PID>-<K>/ (patch.diff, demonstration, meta.json).
"""
import json, os, shutil, subprocess, sys, time

VERIF = os.path.dirname(os.path.dirname(os.path.abspath(__file__)))
REPO = "/repo"


def sh(cmd, cwd=None, timeout=1800):
    p = subprocess.run(cmd, shell=True, cwd=cwd, capture_output=True, text=True, timeout=timeout)
    return p.returncode, p.stdout + p.stderr


def build(wt):
    rc, out = sh("cmake -G Ninja -B _build -DCMAKE_BUILD_TYPE=RelWithDebInfo >/dev/null && cmake --build _build 2>&1 | tail -5", cwd=wt)
    return rc, out


def main():
    pid, k = sys.argv[1], sys.argv[2]
    checks = [pid]
    tier = "quick"
    if "--checks" in sys.argv:
        checks = sys.argv[sys.argv.index("--checks") + 1].split(",")
    if "--tier" in sys.argv:
        tier = sys.argv[sys.argv.index("--tier") + 1]
    src = f"/tmp/seedout/{pid}/{k}"
    dst = os.path.join(VERIF, "seeded", f"{pid}-{k}")
    if not os.path.exists(os.path.join(src, "patch.diff")):
        if os.path.exists(os.path.join(dst, "patch.diff")):
            src = dst
        else:
            print("no patch at", src)
            return 2
    meta = {}
    try:
        meta = json.load(open(os.path.join(src, "meta.json")))
    except Exception as e:
        meta = {"note": f"sub-agent meta.json unreadable: {e}"}
    rc, out = sh("git status --porcelain", cwd=REPO)
    if out.strip():
        print("/repo is not clean:", out)
        return 2
    res = {"property": pid, "k": k}
    # 1. confirm in scratch worktrees
    base = "/tmp/seedverify"
    os.makedirs(base, exist_ok=True)
    wt = f"{base}/{pid}-{k}"
    pr = f"{base}/pristine-{pid}-{k}"
    for d in (wt, pr):
        sh(f"git -C {REPO} worktree remove --force {d}")
        shutil.rmtree(d, ignore_errors=True)
    try:
        sh(f"git -C {REPO} worktree add --detach {wt} HEAD -q")
        sh(f"git -C {REPO} worktree add --detach {pr} HEAD -q")
        rc, out = sh(f"git apply {src}/patch.diff", cwd=wt)
        res["patch_applies"] = rc == 0
        if rc != 0:
            print("patch does not apply:", out)
            return 2
        rc, out = sh("git diff --stat", cwd=wt)
        res["diffstat"] = out.strip().split("\n")
        touched = [l.split("|")[0].strip() for l in res["diffstat"][:-1]]
        res["touches_only_source"] = all(t.startswith(("src/", "include/")) for t in touched)
        rcb, outb = build(wt)
        rcp, outp = build(pr)
        res["builds"] = rcb == 0
        rct, outt = sh("ctest --test-dir _build -j8 --timeout 900 2>&1 | tail -4", cwd=wt)
        res["tests_pass"] = "100% tests passed" in outt
        res["ctest_tail"] = outt.strip().split("\n")[-3:]
        demo_ok = None
        if os.path.exists(os.path.join(src, "run.sh")):
            rc1, o1 = sh(f"bash {src}/run.sh {wt}", cwd=src, timeout=600)
            rc2, o2 = sh(f"bash {src}/run.sh {pr}", cwd=src, timeout=600)
            res["demo_changed_tail"] = o1.strip().split("\n")[-12:]
            res["demo_original_tail"] = o2.strip().split("\n")[-12:]
            demo_ok = (o1 != o2) or (rc1 != rc2)
        res["demo_differs"] = demo_ok
    finally:
        for d in (wt, pr):
            sh(f"git -C {REPO} worktree remove --force {d}")
            shutil.rmtree(d, ignore_errors=True)
    # 2. run my checks against it
    res["checks"] = {}
    # evidence files describe the unchanged tree: keep them out of the way of the runs on the changed tree
    evid = os.path.join(VERIF, "evidence")
    keep = os.path.join(VERIF, ".work", f"evidence-keep-{os.getpid()}")
    shutil.rmtree(keep, ignore_errors=True)
    shutil.copytree(evid, keep)
    rc, out = sh(f"git -C {REPO} apply {src}/patch.diff")
    try:
        for c in checks:
            t0 = time.time()
            rc, out = sh(f"./check {c} --tier {tier}", cwd=VERIF, timeout=3600)
            viol = [l for l in out.split("\n") if l.startswith("VIOLATION")]
            res["checks"][c] = {"exit": rc, "violations": len(viol), "first": viol[:2], "tail": out.strip().split("\n")[-2:], "wall": round(time.time() - t0, 1)}
    finally:
        sh(f"git -C {REPO} checkout -- .")
        shutil.rmtree(evid, ignore_errors=True)
        shutil.copytree(keep, evid)
        shutil.rmtree(keep, ignore_errors=True)
    rc, out = sh("git status --porcelain", cwd=REPO)
    assert not out.strip(), out
    res["detected_by"] = [c for c, v in res["checks"].items() if v["exit"] != 0 and v["violations"] > 0]
    # 3. keep
    if src != dst:
        os.makedirs(dst, exist_ok=True)
        for f in os.listdir(src):
            p = os.path.join(src, f)
            if os.path.isfile(p) and os.path.getsize(p) < 2_000_000 and not os.access(p, os.X_OK) or f == "run.sh":
                shutil.copy(p, os.path.join(dst, f))
    meta["verification"] = res
    json.dump(meta, open(os.path.join(dst, "meta.json"), "w"), indent=1)
    ok = res["tests_pass"] and res["builds"] and res["demo_differs"]
    print(f"[seed {pid}-{k}] builds={res['builds']} tests_pass={res['tests_pass']} demo_differs={res['demo_differs']} "
          f"only_src={res['touches_only_source']} detected_by={res['detected_by']} "
          + " ".join(f"{c}:exit{v['exit']}/{v['violations']}viol/{v['wall']}s" for c, v in res["checks"].items()))
    return 0 if ok else 3


if __name__ == "__main__":
    sys.exit(main())
