#!/usr/bin/env python3
"""Run the registered quick checks against a BEHAVIOUR-PRESERVING change (a refactoring produced by a sub-agent): they must
all stay quiet.

usage: benigncheck.py <area> <k> [--checks C01,C07]

1. fresh scratch worktree of /repo (under /tmp), apply patch, build, run the repository's test suite;
2. apply the patch to /repo, run ./check for all 20 properties (or the listed ones), undo it straight afterwards;
3. store patch + meta under /verif/benign/<area>-<k>/ with the outcome per check.
"""
import json, os, shutil, subprocess, sys, time

VERIF = os.path.dirname(os.path.dirname(os.path.abspath(__file__)))
REPO = "/repo"
ALL = [f"C{i:02d}" for i in range(1, 21)]


def sh(cmd, cwd=None, timeout=3600):
    p = subprocess.run(cmd, shell=True, cwd=cwd, capture_output=True, text=True, timeout=timeout)
    return p.returncode, p.stdout + p.stderr


def main():
    area, k = sys.argv[1], sys.argv[2]
    checks = ALL
    if "--checks" in sys.argv:
        checks = sys.argv[sys.argv.index("--checks") + 1].split(",")
    src = f"/tmp/benignout/{area}/{k}"
    dst = os.path.join(VERIF, "benign", f"{area}-{k}")
    if not os.path.exists(os.path.join(src, "patch.diff")):
        src = dst
    meta = {}
    try:
        meta = json.load(open(os.path.join(src, "meta.json")))
    except Exception as e:
        meta = {"note": f"sub-agent meta.json unreadable: {e}"}
    rc, out = sh("git status --porcelain", cwd=REPO)
    if out.strip():
        print("/repo is not clean:", out)
        return 2
    res = {"area": area, "k": k}
    wt = f"/tmp/benignverify/{area}-{k}"
    sh(f"git -C {REPO} worktree remove --force {wt}")
    shutil.rmtree(wt, ignore_errors=True)
    os.makedirs("/tmp/benignverify", exist_ok=True)
    try:
        sh(f"git -C {REPO} worktree add --detach {wt} HEAD -q")
        rc, out = sh(f"git apply {src}/patch.diff", cwd=wt)
        if rc != 0:
            print("patch does not apply:", out)
            return 2
        rc, out = sh("git diff --stat", cwd=wt)
        res["diffstat"] = out.strip().split("\n")
        rcb, _ = sh("cmake -G Ninja -B _build -DCMAKE_BUILD_TYPE=RelWithDebInfo >/dev/null && cmake --build _build 2>&1 | tail -5", cwd=wt)
        res["builds"] = rcb == 0
        rct, outt = sh("ctest --test-dir _build -j8 --timeout 900 2>&1 | tail -4", cwd=wt)
        res["tests_pass"] = "100% tests passed" in outt
    finally:
        sh(f"git -C {REPO} worktree remove --force {wt}")
        shutil.rmtree(wt, ignore_errors=True)
    res["checks"] = {}
    evid = os.path.join(VERIF, "evidence")
    keep = os.path.join(VERIF, ".work", f"evidence-keep-{os.getpid()}")
    shutil.rmtree(keep, ignore_errors=True)
    shutil.copytree(evid, keep)
    rc, out = sh(f"git -C {REPO} apply {src}/patch.diff")
    try:
        for c in checks:
            t0 = time.time()
            rc, out = sh(f"./check {c} --tier quick", cwd=VERIF)
            viol = [l for l in out.split("\n") if l.startswith("VIOLATION")]
            res["checks"][c] = {"exit": rc, "violations": len(viol), "first": viol[:2], "tail": out.strip().split("\n")[-2:],
                                "wall": round(time.time() - t0, 1)}
            # keep the replays of an alarm for diagnosis
            if viol:
                os.makedirs(dst, exist_ok=True)
                for v in viol[:3]:
                    rp = v.split("replay=")[-1].split()[0]
                    if os.path.exists(rp):
                        shutil.copy(rp, os.path.join(dst, f"alarm-{c}-" + os.path.basename(rp)))
    finally:
        sh(f"git -C {REPO} checkout -- .")
        shutil.rmtree(evid, ignore_errors=True)
        shutil.copytree(keep, evid)
        shutil.rmtree(keep, ignore_errors=True)
    rc, out = sh("git status --porcelain", cwd=REPO)
    assert not out.strip(), out
    res["alarms"] = [c for c, v in res["checks"].items() if v["exit"] != 0 or v["violations"] > 0]
    if src != dst:
        os.makedirs(dst, exist_ok=True)
        for f in os.listdir(src):
            p = os.path.join(src, f)
            if os.path.isfile(p) and os.path.getsize(p) < 2_000_000 and not os.access(p, os.X_OK):
                shutil.copy(p, os.path.join(dst, f))
    meta["verification"] = res
    json.dump(meta, open(os.path.join(dst, "meta.json"), "w"), indent=1)
    print(f"[benign {area}-{k}] builds={res['builds']} tests_pass={res['tests_pass']} alarms={res['alarms']} "
          + " ".join(f"{c}:{v['exit']}" for c, v in res["checks"].items()))
    return 0


if __name__ == "__main__":
    sys.exit(main())
