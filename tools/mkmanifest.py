#!/usr/bin/env python3
"""Regenerates /verif/MANIFEST.json from the per-property registry below (kept in one place so the
manifest stays valid and current)."""
import json
import os
import subprocess

VERIF = os.path.dirname(os.path.dirname(os.path.abspath(__file__)))
props = [json.loads(l) for l in open(os.path.join(VERIF, "properties.jsonl"))]

TECH = "Lean 4 machine-checked proof about an executable model + model/implementation correspondence run"

# id -> (level text, level note)
REG = {
 "C19": ("Lean 4 theorems about the executable model of parsing.c / colors.c: write-then-parse round-trips for all 16/32-bit values with little-endian bytes, the full variable-length-integer specification for every buffer, claimed length and offset (incl. 'never reads at or beyond n'), RGB565 decode/encode over all 65536 codes and top-bit preservation for all colours. Tied to the code by a correspondence run under ASan/UBSan that is exhaustive where the domain is finite.",
         "Model hand-written (Sb/Model/Parsing.lean, Colors.lean), tied by differential run; axioms propext, Quot.sound; kernel evaluation (decide +kernel) for the finite RGB565 tables. Fixed-width parse functions take no length: callers must guarantee offset+size<=length."),
 "C05": ("Lean 4 theorems: the table extracted from src/crc32.c equals the 8-fold bit step of reflected 0x04C11DB7 for all 256 entries (kernel evaluation), the table loop equals the bit-serial register for every input, split-independence for every split, the parser's 256-byte chunk loop equals one pass over the whole file with bytes 6..9 zeroed for every length, the acceptance rule (corrupted <=> stored != AP-CRC32) on both routes, detection of every alteration inside the field, GF(2)-linearity of the register. Correspondence: valid files on both sides of the chunk size with every single-bit flip, sampled double flips and 1..4-byte windows.",
         "Detection of bursts after the field and of 2-bit errors is currently decided by the correspondence run plus the proven linearity/injectivity lemmas (the closing theorems detect_burst32/detect_2bit are not yet in the development). Translator feeds the table; a changed table breaks table_correct and the check then searches with an oracle built from the last good table."),
 "C04": ("Lean 4 theorems for both backends: init equals its grammar-level specification on every byte string (accept_iff, error_classes), iteration with seek_to_next_block/read_current_block yields exactly the records of the grammar ending at end-of-data or a type-0 record (iteration_eq_records, any number of blocks), lookup returns the first record of the type with exactly its body or not-found (find_first_correct). Correspondence: generated files of 0..6 blocks, both versions, with/without checksum, every truncation, both routes.",
         "Descriptor route assumes regular-file read/lseek semantics. 'Accepted exactly when' is read including that the first record header is not cut (that is what the initialiser reads), see DESIGN.md 8.3."),
 "C01": ("Lean 4 theorems (exact rational arithmetic): the literal transcription of sb_poly_make_bezier+sb_poly_eval equals the Bernstein-form Bezier curve for 1..8 control points; the offset-based segment decoder equals the list-structured format specification (chained control points, scale, yaw reduced to [0,360)); position_eq_spec: for every block with durations >= 1 ms and total < 2^32 ms and every non-NaN time, a fresh player's position is the specified curve point of the segment whose span contains t (clamping at 0, last end point beyond the end); duration_eq_sum: every duration query is the sum of segment durations. Correspondence: generated blocks over all encodings/scales/durations with boundary-biased times; acceptance tolerance is the Lean-defined float32 bound.",
         "Theorems use secExact (ms/1000); the implementation's float32 rounding is bounded, not derived (tolPos). At-zero/at-end/joining corollaries are consequences of position_eq_spec + bezier_zero/bezier_one but are not yet stated as separate theorems. Statistics-interface duration is compared by the correspondence run."),
 "C07": ("Lean 4 theorems against Mathlib's Polynomial: sb_poly_deriv is the formal derivative, sb_poly_scale the scalar multiple, and the cached first/second derivative polynomials the player evaluates are exactly d/dtau and d2/dtau2 of tau -> P((tau-T)/D) for every coefficient list (every degree), every axis and every duration with |D| > 1e-6 s; zero beyond the end; clamping before 0. Which segment is evaluated is given by C08.runQuery_spec. Correspondence: v/a queries interleaved with position queries in several orders (lazy caches), exact rational derivative within the float32 bound.",
         "Float32 rounding bounded by tolVel/tolAcc (Sb/Corr/Traj.lean), which include a term relative to the coordinate magnitude (power-basis cancellation), i.e. are at least as permissive as the property's bound."),
 "C08": ("Lean 4 theorems for every weakly monotone ms->s conversion (hence for the C float rounding): any history of position/velocity/acceleration/duration queries at non-NaN times keeps the cursor on the chain rewind,next,next,... up to coherent derivative caches (runHistory_inv); the answer at an instant that is not exactly a boundary equals a fresh player's answer (trajectory_answers_history_free); with positive durations the segment used at a boundary is the fresh one or its successor (trajectory_boundary_adjoining). Abstract cursor theory (cseek_lands, landing_history_free, landing_adjoining) shared with the yaw player. Correspondence: the implementation is compared with itself bit-for-bit (fresh player vs player after history) and with the model (segment index exactly) on all orderings of small probe sets and long random walks.",
         "Hypothesis NoWrap (ms counters below 2^32) and MonoSec (monotone conversion; proven for exact division, assumed for IEEE float division by 1000.0f). The yaw-player instance of the abstract theorems is exercised by the correspondence run; its Lean instantiation is in progress."),
 "C10": ("Lean 4 theorems (exact arithmetic): header fields are exactly those stored; yaw_eq_spec: for every block with setpoint durations >= 1 ms (total < 2^32 ms, accumulated yaw within int32) and every non-NaN time, yaw = offset + completed changes + elapsed fraction of the change in progress (degrees) and rate = change/duration; initial offset at/before 0; final yaw held with zero rate after the end. Correspondence: generated blocks incl. accumulated yaw far beyond +-3276.7 deg and stray trailing bytes, fresh player per query.",
         "Float32 rounding bounded by tolYaw (Sb/Corr/YawOps.lean). int32 accumulation overflow (needs > 65535 setpoints) is a hypothesis of the theorem and a fault in the model."),
 "C02": ("Lean 4 theorems about the literal model of executor/player/loop stack/transition: opcode numbering and timing constants are the format's (side-conditions on the translator output), loop depth never exceeds 4 and a fifth LOOP_BEGIN is ignored, loop counter semantics (0 forever, 1 leaves, n counts down), 7-bit pyro mask, fade interpolation exact at both ends and never above 255, state held after the end. PARTIAL: the refinement 'fresh seek = sequential timeline semantics' and 'no command starts between t and next' are decided by the correspondence run only: grammar-based productive programs over all 22 opcodes x fresh player per timestamp at every command start, start+-1, inside fades, far beyond, 2^24-1.",
         "No signal source (C API offers none). Colour inside a fade accepted within <1 unit (+2^-10 float slack) of exact interpolation, as the property states. The timeline-refinement theorem is not proven; the model itself is the executable semantics the implementation is compared with."),
 "C09": ("Lean 4 theorems: a backward seek starts over from the rewound executor, a fresh player is exactly a rewound one, rewind re-establishes pc/loops/colour/pyro/transition/ended and arms the clock reset; plus the C02 invariants. PARTIAL: that a forward seek is a function of (program, t) up to the zero-duration latitude is decided by the correspondence run: one player driven through all orderings of probe sets with immediate repeats and random walks with back-jumps; each answer compared with a fresh player's (implementation vs itself) and with the model; differences accepted only where the fresh player still has zero-duration commands pending at t.",
         "See C02."),
 "C11": ("Lean 4 theorems: the scan with early exit returns the first decoded entry whose cumulative time is at least t, else the last one (scanLoop_eq_pickFirst; decoding does not depend on t), an immediate landing for negative t or a plan without entries, the returned action is never 'same as previous' (resolved to the action in force), a cumulative time beyond 32 bits and a duration/delay above 2^24 s are overflow errors, points are stored int16 values times the scale. Correspondence (exact: all outputs are integers below 2^24, scaled int16 or float-rounded integers): generated plans over every action/flag combination, multi-byte and padded varints, cumulative times near 2^32, in/out-of-range point indices, damaged plans; evaluation at every cumulative time +-0.5/+-1, +-inf, NaN.",
         "The field-by-field description of a well-formed entry (which fields follow which action) is the model's scanParams/scanTimes, tied by the correspondence run; NaN time behaves as 'later than every entry' (DESIGN.md 8.3)."),
 "C06": ("Lean 4 theorem load_equiv: for every byte string and each of the four object kinds, loading through a descriptor and loading from memory either both fail or both succeed, and then hold the same block bytes (built on C04's init/lookup theorems for both backends; error codes may differ only when the data ends inside a block: findOf_same_when_complete). Correspondence (metamorphic, on the implementation itself): the same bytes through a memfd descriptor and through an exactly-sized heap buffer, compared: success class, block bytes, ownership, the whole query battery bit-for-bit, and the battery again after clear; inputs: fixtures, generated show files, every prefix, single-byte edits, mutations, random strings.",
         "'every later query result is identical' holds by construction in the model (queries are functions of the block bytes) and is established for the implementation by the bit-for-bit battery comparison, not by a theorem. Known finding zero-time-cycle (seek hangs) is shared with C03."),
 "C03": ("PARTIAL by nature (runtime memory safety cannot be a theorem about a model). Lean 4 theorems for ALL byte strings of any length and all query sequences: every read of the model goes through the checked accessor and the model never faults - container open/lookup (both backends), variable-length integers, trajectory load and every finite history of position/velocity/acceleration/duration queries (trajectory_queries_total: segment building is total and the seek loop ends within length+3 iterations), RTH load/points/evaluation at any time incl. NaN, yaw load and setpoint building (int32 accumulation needs > 65535 setpoints), light executor steps are total functions and a seek can only fail by exhausting fuel. Runtime: the same hostile inputs are run through the real library under ASan+UBSan(+float-cast-overflow) with a 5 s watchdog and every result is compared with the model.",
         "The sanitizers are the monitor for the compiled code; classes they cannot see (uninitialised reads other than those repaired, intra-object overflow) are covered only where the model represents them (loop stack). One recorded known finding: seek on a light program with a zero-time cycle never returns."),
 "C16": ("Bit-exact model of builder.c (every float operation there is a correctly rounded IEEE operation, modelled with roundF32) compared with the implementation byte for byte after every call: all call sequences up to length 3/4 over a boundary alphabet for scales {1,2,127} plus random sequences of 200 calls; a rejected call must leave the buffer unchanged; the finished trajectory's bytes and total duration are compared too. Lean 4 theorems: splitting of long segments and chunking of holds preserve the requested duration exactly and never exceed 60000 ms (<= 65535 side-condition on the generated constant), a long append_line is exactly a sequence of ordinary segments with those durations ending at the target, invalid scales and late set-start are rejected, an unrepresentable target is rejected before anything is appended.",
         "PARTIAL: 'within one quantum of each accepted point' is not a Lean theorem; it is implied for the implementation by the byte-exact agreement with the model's floor(x/scale) quantisation, whose one-quantum property is plain arithmetic but not yet stated in Lean. That validation of the target implies success of every split piece (midpoints lie between representable points) relies on monotonicity of float rounding (not proven)."),
 "C20": ("Bit-exact model (every float step through roundF32) compared exactly with the implementation: scale update on boundary grids k*32767, k*32767+-1 and float neighbours; seconds->ms incl. 4294967 s and neighbours; interval/box expansion; colour interpolation by exhaustive rows (all second values x 33 ratios per first value) and seeded ratios in and outside [0,1]; RGBW min-subtraction/fixed/reference by exhaustive rows (thorough: all 2^24 colours); buffer: all operation sequences up to length 3/4 over small sizes for owned buffers and views, state compared after every op. The documented contracts are re-checked on the model's answers (least scale, between-ness, reference <= original, never-inverted). Travel time: compared with the exact profile without sqrt (squared comparison) incl. the regime boundary; monotonicity on dense float neighbourhoods. Lean 4 theorems: buffer refinement (contents survive growth, capacity never lowered by growth, a view can be neither grown nor shrunk, shrinking keeps the prefix), RGBW minimum subtraction, interval never inverted / collapses, and over the reals the travel-time profile: the code's cruise expression, continuity at the regime boundary, monotonicity in the distance.",
         "PARTIAL for sqrtf (not modelled; squared comparison). least-scale / between-ness / reference<=original are run-time contract checks on the bit-exact model rather than Lean theorems (they depend on monotonicity of float rounding)."),
 "C12": ("Bit-exact model of sb_trajectory_init_from_rth_plan_entry (scale selection, float additions, seconds->ms, builder) whose bytes are compared exactly with the implementation; on those bytes the property's claims are checked: total duration = sum of the phases in whole milliseconds, and positions probed along every leg lie within one quantum of the ideal path (plus the half-millisecond-per-split-level timing of legs longer than 60 s). Lean 4 theorems: which phases a conversion consists of, in which order and with which targets, per action (landing: no leg; keep-altitude: x,y only; with-altitude: neck first, then target point and altitude; the neck is purely vertical), durations converted when the phase is reached (negative/NaN -> invalid, infinite/too long -> overflow, unknown action -> invalid), every hold/leg duration preserved exactly by chunking/splitting (C16).",
         "PARTIAL: 'within one quantum of the ideal path' and 'total = sum of phases' are run-time contract checks on the exactly predicted bytes, not Lean theorems. Instants of zero-duration legs are not probed (property text)."),
}

checks = []
for p in props:
    pid = p["id"]
    if pid not in REG:
        continue
    text, note = REG[pid]
    checks.append({
        "property_id": pid,
        "quick_cmd": f"./check {pid} --tier quick",
        "thorough_cmd": f"./check {pid} --tier thorough",
        "evidence_file": f"/verif/evidence/{pid}.json",
        "replay_cmd_template": f"./check {pid} --replay {{path}}",
        "engine": "lean4+correspondence",
        "level_claimed": {"category": "proof", "text": text, "design_ref": f"DESIGN.md section 4, {pid}"},
        "level_note": note,
        "technique": TECH,
    })

try:
    fixes = subprocess.run(["git", "-C", "/repo", "log", "--format=%h %s"], capture_output=True, text=True).stdout.split("\n")
    hook_commits = [l.split()[0] for l in fixes if " hook:" in l or l.split(" ", 1)[-1].startswith("hook:")]
except Exception:
    hook_commits = []

m = {
    "version": 1,
    "setup_cmd": "./setup.sh",
    "hooks": {
        "guard": "SB_VERIF",
        "enable": "no source hooks are needed: the harness compiles /repo/src/** directly and uses the repository's own internal headers for white-box access; allocation tracing uses the linker's --wrap",
        "baseline_off_cmd": "cmake --build /repo/_build && ctest --test-dir /repo/_build -j8 --timeout 900",
        "source_commits": hook_commits,
        "add_only": True,
    },
    "engines": [{
        "name": "lean4+correspondence", "path": "/verif/check", "serves_properties": sorted(REG),
        "kind_free_text": "Lean 4 proofs about an executable model (lean/Sb), translator for tables/constants (translator/extract.py), differential correspondence against the sanitised real library (harness/, lean/Driver/Main.lean)",
    }],
    "checks": checks,
    "notes": "See DESIGN.md. fix: commits in /repo and known findings are listed in known_findings.json.",
    "not_applicable": [
        {"property_id": p["id"], "reason": "check still under construction in this round (model/theorems not yet committed); not a claim that the technique cannot apply"}
        for p in props if p["id"] not in REG],
}
json.dump(m, open(os.path.join(VERIF, "MANIFEST.json"), "w"), indent=1)
print("MANIFEST.json:", len(checks), "checks,", len(m["not_applicable"]), "not_applicable")
